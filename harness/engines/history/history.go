// Package history drives the real history content validation of shisui (C02): history.HistoryValidator.ValidateContent
// with a stub header oracle and with the production validation.ValidationOracle over an in-process RPC server, and
// history.Network.validateContents / GetBlockHeader / GetBlockBody / GetReceipts over a recording store.
//
// Input: the abstract cases printed by TLC from spec/HistoryValidation.tla (one JSON object per line). Every case is
// concretised from the repository's genuine mainnet vectors and from synthetic blocks; "foreign" fields are
// cross-pairings with another block or seeded mutations inside the field. In addition whole-content single-bit /
// byte / truncation / extension mutations of every genuine (key, content) pair are executed.
//
// Output: one ndjson event per evaluation with the *recomputed* abstract attributes of the concrete input (views of
// spec/HistoryRules.tla: key view, content view, source view - computed by the harness's own strict decoders and
// go-ethereum's root derivation, never by shisui code) and the outcome: accept / reject / panic + site.
package history

import (
	"bufio"
	"bytes"
	"encoding/hex"
	"encoding/json"
	"flag"
	"fmt"
	"math/big"
	"math/rand"
	"os"
	"regexp"
	"runtime/debug"
	"strings"

	"github.com/ethereum/go-ethereum/common"
	"github.com/ethereum/go-ethereum/core/types"
	"github.com/ethereum/go-ethereum/log"
	"github.com/ethereum/go-ethereum/rlp"
	"github.com/ethereum/go-ethereum/trie"
	shhistory "github.com/zen-eth/shisui/history"
	"github.com/zen-eth/shisui/validation"

	vcommon "verifharness/common"
	"verifharness/tracelog"
)

func init() { vcommon.Register("history", Main) }

// ---- abstract case (TLC output) ---------------------------------------------------------------------

type absCase struct {
	I       int    `json:"i"`
	Kt      string `json:"kt"`
	Kh      int    `json:"kh"`
	Kx      bool   `json:"kx"`
	Nc      bool   `json:"nc"`
	Ck      string `json:"ck"`
	Hid     int    `json:"hid"`
	Nid     int    `json:"nid"`
	Pf      int    `json:"pf"`
	Tx      int    `json:"tx"`
	Un      int    `json:"un"`
	Wd      int    `json:"wd"`
	Rc      int    `json:"rc"`
	Zero    bool   `json:"zero"`
	Sm      string `json:"sm"`
	Sj      int    `json:"sj"`
	Out     string `json:"out"`
	Bound   bool   `json:"bound"`
	Genuine bool   `json:"genuine"`
	N       int    `json:"n"`
}

// ---- views ------------------------------------------------------------------------------------------

type keyView struct {
	T     string `json:"t"`
	ID    int    `json:"id"`
	Pre   int    `json:"pre"`
	Known bool   `json:"known"`
	Tx    int    `json:"tx"`
	Un    int    `json:"un"`
	Wd    int    `json:"wd"`
	Rc    int    `json:"rc"`
}
type contentView struct {
	Ok    bool `json:"ok"`
	Hid   int  `json:"hid"`
	Nid   int  `json:"nid"`
	Pf    bool `json:"pf"`
	Tx    int  `json:"tx"`
	Un    int  `json:"un"`
	Wd    int  `json:"wd"`
	Rc    int  `json:"rc"`
	Zero  bool `json:"zero"`
	Canon bool `json:"canon"`
	Sb    bool `json:"sb"`
}
type sourceView struct {
	Ans bool `json:"ans"`
	Hid int  `json:"hid"`
	Tx  int  `json:"tx"`
	Un  int  `json:"un"`
	Wd  int  `json:"wd"`
	Rc  int  `json:"rc"`
}

type interner struct {
	m    map[string]int
	next int
}

func (in *interner) id(s string) int {
	if v, ok := in.m[s]; ok {
		return v
	}
	in.next++
	in.m[s] = in.next
	return in.next
}

// ---- engine -----------------------------------------------------------------------------------------

type engine struct {
	w       *tracelog.Writer
	seed    int64
	mainnet []*block
	synth   []*block
	all     []*block
	byHash  map[common.Hash]*block
	src     *source
	vStub   *shhistory.HistoryValidator
	vRPC    *shhistory.HistoryValidator
	roots   *interner
	ids     *interner
	net     *netLayer
	// length of the frozen historical_roots accumulator (protocol constant, read from shisui's embedded data)
	nHistRoots int
}

func (e *engine) rid(h common.Hash) int { return e.roots.id(string(h[:])) }
func (e *engine) wdid(h *common.Hash) int {
	if h == nil {
		return 0
	}
	return e.rid(*h)
}

func newEngine(repo string, seed int64, w *tracelog.Writer) (*engine, error) {
	mainnet, err := loadVectors(repo)
	if err != nil {
		return nil, err
	}
	sum, err := loadSummaries(repo)
	if err != nil {
		return nil, err
	}
	e := &engine{w: w, seed: seed, mainnet: mainnet, byHash: map[common.Hash]*block{}}
	e.nHistRoots = len(validation.DefaultHistoricalRootsAccumulator().HistoricalRoots)
	if e.nHistRoots == 0 {
		return nil, fmt.Errorf("empty historical roots accumulator")
	}
	e.synth = synthBlocks(rand.New(rand.NewSource(seed*7919 + 17)))
	e.all = append(append([]*block{}, mainnet...), e.synth...)
	for _, b := range e.all {
		e.byHash[b.hash] = b
	}
	e.roots = &interner{m: map[string]int{string(types.EmptyRootHash[:]): 1, string(types.EmptyUncleHash[:]): 2}, next: 9}
	e.ids = &interner{m: map[string]int{}, next: 0}
	e.src = &source{chain: e.byHash, mode: "honest", summaries: sum}
	e.vStub = shhistory.NewHistoryValidator(e.src)
	or, _, err := newRPCOracle(e.src)
	if err != nil {
		return nil, err
	}
	e.vRPC = shhistory.NewHistoryValidator(or)
	return e, nil
}

var reFrame = regexp.MustCompile(`(?m)^(github\.com/zen-eth/shisui/[^\s(]+(?:\([^)]*\))?[^\s(]*)\(`)

// guarded runs f under recover and classifies the result.
func guarded(f func() error) (out, errs, site string) {
	defer func() {
		if r := recover(); r != nil {
			out, errs = "panic", fmt.Sprint(r)
			st := string(debug.Stack())
			if m := reFrame.FindStringSubmatch(st); m != nil {
				site = m[1]
			}
		}
	}()
	if err := f(); err != nil {
		s := err.Error()
		if len(s) > 160 {
			s = s[:160]
		}
		return "reject", s, ""
	}
	return "accept", "", ""
}

// ---- recomputation of the views from the concrete input --------------------------------------------

func selName(key []byte) string {
	if len(key) == 0 {
		return "unk"
	}
	switch key[0] {
	case 0:
		return "hash"
	case 1:
		return "body"
	case 2:
		return "rcpt"
	case 3:
		return "num"
	}
	return "unk"
}

func (e *engine) numID(raw []byte) int {
	if len(raw) == 8 {
		var n uint64
		for i := 7; i >= 0; i-- {
			n = n<<8 | uint64(raw[i])
		}
		return e.ids.id(fmt.Sprintf("n:%d", n))
	}
	return e.ids.id("n?:" + hex.EncodeToString(raw))
}

func (e *engine) rootsOfHeader(h *types.Header) (tx, un, wd, rc int) {
	return e.rid(h.TxHash), e.rid(h.UncleHash), e.wdid(h.WithdrawalsHash), e.rid(h.ReceiptHash)
}

func (e *engine) keyView(key []byte, extra map[common.Hash]*block) keyView {
	kv := keyView{T: selName(key), Pre: -1, Tx: -1, Un: -1, Wd: -1, Rc: -1}
	rest := key[1:]
	if kv.T == "num" {
		kv.ID = e.numID(rest)
		if len(rest) > 8 {
			kv.Pre = e.numID(rest[:8])
		}
		return kv
	}
	kv.ID = e.ids.id("h:" + hex.EncodeToString(rest))
	if len(rest) > 32 {
		kv.Pre = e.ids.id("h:" + hex.EncodeToString(rest[len(rest)-32:]))
	}
	if (kv.T == "body" || kv.T == "rcpt") && len(rest) == 32 {
		h := common.BytesToHash(rest)
		b := e.byHash[h]
		if b == nil {
			b = extra[h]
		}
		if b != nil {
			kv.Known = true
			kv.Tx, kv.Un, kv.Wd, kv.Rc = e.rootsOfHeader(b.header)
		}
	}
	return kv
}

func (e *engine) contentView(t string, content []byte) contentView {
	cv := contentView{Hid: -2, Nid: -2, Tx: -2, Un: -2, Wd: -2, Rc: -2, Zero: len(content) == 0}
	switch t {
	case "hash", "num":
		p, ok := parseHWP(content)
		if !ok {
			return cv
		}
		h := p.header.Hash()
		cv.Ok, cv.Canon = true, true
		cv.Hid = e.ids.id("h:" + hex.EncodeToString(h[:]))
		if p.header.Number.IsUint64() {
			cv.Nid = e.ids.id(fmt.Sprintf("n:%d", p.header.Number.Uint64()))
		} else {
			cv.Nid = e.ids.id("n!:" + p.header.Number.String())
		}
		if b := e.byHash[h]; b != nil && b.proven {
			if string(b.proof) == string(p.proof) {
				cv.Pf = true
			} else if b.era == "bellatrix" && len(p.proof) == len(b.proof) && string(b.proof[:len(b.proof)-8]) == string(p.proof[:len(p.proof)-8]) &&
				slotOf(p.proof)/8192 >= uint64(e.nHistRoots) {
				cv.Sb = true // genuine but for the slot, which points beyond the historical_roots accumulator
			}
		}
	case "body":
		p, ok := parseBody(content)
		if !ok {
			return cv
		}
		r, ok := rootsOfBody(p)
		if !ok {
			return cv
		}
		cv.Ok, cv.Canon = true, r.canon
		cv.Tx, cv.Un, cv.Wd = e.rid(r.tx), e.rid(r.un), e.wdid(r.wd)
	case "rcpt":
		root, canon, ok := rootOfReceipts(content)
		if !ok {
			return cv
		}
		cv.Ok, cv.Canon, cv.Rc = true, canon, e.rid(root)
	}
	return cv
}

func slotOf(proof []byte) uint64 {
	var n uint64
	for i := 1; i <= 8; i++ {
		n = n<<8 | uint64(proof[len(proof)-i])
	}
	return n
}

// slotBeyond returns the proof with its slot moved to the first / a far position beyond the accumulator.
func (e *engine) slotBeyond(rng *rand.Rand, proof []byte) []byte {
	q := append([]byte{}, proof...)
	slot := uint64(e.nHistRoots) * 8192 // boundary: the first index that does not exist
	switch rng.Intn(3) {
	case 1:
		slot = slotOf(proof) | 1<<uint(40+rng.Intn(20))
	case 2:
		slot = ^uint64(0) - uint64(rng.Intn(8192))
	}
	for i := 0; i < 8; i++ {
		q[len(q)-8+i] = byte(slot >> (8 * uint(i)))
	}
	return q
}

func (e *engine) sourceView(key []byte) sourceView {
	sv := sourceView{Hid: -3, Tx: -3, Un: -3, Wd: -3, Rc: -3}
	t := selName(key)
	if t != "body" && t != "rcpt" {
		return sv
	}
	b := e.src.answer(key[1:])
	if b == nil {
		return sv
	}
	sv.Ans = true
	sv.Hid = e.ids.id("h:" + hex.EncodeToString(b.hash[:]))
	sv.Tx, sv.Un, sv.Wd, sv.Rc = e.rootsOfHeader(b.header)
	return sv
}

// ---- one evaluation ---------------------------------------------------------------------------------

type concrete struct {
	idx      int // abstract case index, -1 for byte-mutation cases
	variant  string
	blocks   string
	key      []byte
	content  []byte
	mode     string
	lie      *block
	extra    map[common.Hash]*block // forged headers of this case (known to the harness, to no honest source)
	pristine bool                   // genuine key, genuine content, honest source
	ib       string                 // the abstract case's own verdict "bound" (T/F), "-" for byte-mutation cases
	era      string
}

func (c *concrete) ibs() string {
	if c.ib == "" {
		return "-"
	}
	return c.ib
}

func hexShort(b []byte) string {
	if len(b) > 40 {
		return hex.EncodeToString(b[:40]) + "..."
	}
	return hex.EncodeToString(b)
}

func (e *engine) emit(layer string, c *concrete, kvw keyView, cvw contentView, svw sourceView, out, errs, site string, stored, returned bool) {
	e.w.Emit(map[string]any{"ev": "eval", "layer": layer, "i": c.idx, "var": c.variant, "blk": c.blocks, "era": c.era,
		"k": kvw, "c": cvw, "s": svw, "ib": c.ibs(), "mode": c.mode, "out": out, "err": errs, "site": site, "pristine": c.pristine,
		"stored": stored, "returned": returned, "consulted": e.src.consulted,
		"key": hex.EncodeToString(c.key), "clen": len(c.content), "ctag": vcommon.Tag(c.content), "chead": hexShort(c.content)})
}

func (e *engine) run(c *concrete, layers map[string]bool) {
	kvw := e.keyView(c.key, c.extra)
	cvw := e.contentView(kvw.T, c.content)
	e.src.set(c.mode, c.lie)
	svw := e.sourceView(c.key)
	if layers["stub"] {
		e.src.set(c.mode, c.lie)
		out, errs, site := guarded(func() error { return e.vStub.ValidateContent(c.key, c.content) })
		e.emit("stub", c, kvw, cvw, svw, out, errs, site, false, false)
	}
	if layers["rpc"] && (kvw.T == "body" || kvw.T == "rcpt") {
		e.src.set(c.mode, c.lie)
		out, errs, site := guarded(func() error { return e.vRPC.ValidateContent(c.key, c.content) })
		e.emit("rpc", c, kvw, cvw, svw, out, errs, site, false, false)
	}
	if layers["net"] && e.net != nil {
		e.net.run(e, c, kvw, cvw, svw)
	}
}

// ---- concretisation ---------------------------------------------------------------------------------

type pools struct{ preNonEmpty, shSome, preEmpty, shEmpty []*block }

func mkPools(bs []*block) pools {
	var p pools
	for _, b := range bs {
		switch {
		case b.wdKind() == "none" && !b.emptyRc():
			p.preNonEmpty = append(p.preNonEmpty, b)
		case b.wdKind() == "some" && !b.emptyRc():
			p.shSome = append(p.shSome, b)
		case b.wdKind() == "none" && b.emptyRc():
			p.preEmpty = append(p.preEmpty, b)
		case b.wdKind() == "empty" && b.emptyRc():
			p.shEmpty = append(p.shEmpty, b)
		}
	}
	return p
}

func pickNot(rng *rand.Rand, pool []*block, not ...*block) *block {
	for tries := 0; tries < 50; tries++ {
		b := pool[rng.Intn(len(pool))]
		dup := false
		for _, n := range not {
			if n == b {
				dup = true
			}
		}
		if !dup {
			return b
		}
	}
	return pool[0]
}

// universe assigns concrete blocks to the model's block slots (MC_HistoryValidation!MCBlk3 / MCBlk5).
func (e *engine) universe(rng *rand.Rand, n int, headerCase bool) []*block {
	var src []*block
	for _, b := range e.all {
		if (headerCase && b.proven) || (!headerCase && b.complete) {
			src = append(src, b)
		}
	}
	p, pa := mkPools(src), mkPools(e.synth)
	u := make([]*block, n+1)
	u[1] = pickNot(rng, p.preNonEmpty)
	u[2] = pickNot(rng, p.shSome)
	u[3] = pickNot(rng, p.preEmpty)
	if n >= 4 {
		u[4] = pickNot(rng, pa.shEmpty)
	}
	if n >= 5 {
		u[5] = pickNot(rng, p.shSome, u[2])
	}
	return u
}

func flipBit(rng *rand.Rand, b []byte) []byte {
	o := append([]byte{}, b...)
	if len(o) == 0 {
		return []byte{1}
	}
	i := rng.Intn(len(o))
	o[i] ^= 1 << uint(rng.Intn(8))
	return o
}

func setByte(rng *rand.Rand, b []byte) []byte {
	o := append([]byte{}, b...)
	if len(o) == 0 {
		return []byte{0}
	}
	i := rng.Intn(len(o))
	o[i] += byte(1 + rng.Intn(255))
	return o
}

// mutBytes: single-bit, byte, truncation and extension mutations of a byte string.
func mutBytes(rng *rand.Rand, b []byte) ([]byte, string) {
	switch v := rng.Intn(8); v {
	case 0, 1:
		return flipBit(rng, b), "bit"
	case 2:
		return setByte(rng, b), "byte"
	case 3:
		if len(b) > 0 {
			return append([]byte{}, b[:len(b)-1]...), "trunc1"
		}
		return []byte{0}, "ext1"
	case 4:
		if len(b) > 1 {
			return append([]byte{}, b[:rng.Intn(len(b))]...), "trunc"
		}
		return []byte{}, "trunc"
	case 5:
		return append(append([]byte{}, b...), 0), "ext1"
	case 6:
		x := make([]byte, 1+rng.Intn(40))
		rng.Read(x)
		return append(append([]byte{}, b...), x...), "ext"
	default:
		if len(b) >= 32 {
			return append([]byte{}, b[:len(b)-32]...), "trunc32"
		}
		return append(append([]byte{}, b...), make([]byte, 32)...), "ext32"
	}
}

// mutList: a mutation inside a list-valued field (transactions, withdrawals, receipts).
func mutList(rng *rand.Rand, items, donor [][]byte) ([][]byte, string) {
	cp := make([][]byte, len(items))
	copy(cp, items)
	if len(cp) == 0 {
		if len(donor) > 0 {
			return [][]byte{donor[rng.Intn(len(donor))]}, "add"
		}
		return [][]byte{{0xc0}}, "addjunk"
	}
	i := rng.Intn(len(cp))
	switch v := rng.Intn(8); v {
	case 0, 1:
		cp[i] = flipBit(rng, cp[i])
		return cp, "bit"
	case 2:
		cp[i] = setByte(rng, cp[i])
		return cp, "byte"
	case 3:
		return cp[:len(cp)-1], "drop"
	case 4:
		return append(cp, cp[i]), "dup"
	case 5:
		if len(cp) >= 2 {
			j := (i + 1 + rng.Intn(len(cp)-1)) % len(cp)
			cp[i], cp[j] = cp[j], cp[i]
			return cp, "swap"
		}
		cp[i] = flipBit(rng, cp[i])
		return cp, "bit"
	case 6:
		if len(donor) > 0 {
			return append(cp, donor[rng.Intn(len(donor))]), "add"
		}
		return append(cp, cp[0]), "dup"
	default:
		cp[i] = append(append([]byte{}, cp[i]...), 0)
		return cp, "ext1"
	}
}

func (e *engine) mutUncles(rng *rand.Rand, raw []byte) ([]byte, string) {
	var us []*types.Header
	_ = rlp.DecodeBytes(raw, &us)
	switch v := rng.Intn(6); {
	case v >= 4:
		// bytes that are no RLP list at all: the decoder's error must not get lost on the way (a later field decoding fine)
		return [][]byte{{0xc1}, {0xc0, 0x00}, {0x80}, {}, {0xf8}}[rng.Intn(5)], "badrlp"
	case len(us) == 0 || v == 0:
		us = append(us, synthHeader(rng, 1_000_000+uint64(rng.Intn(1000))))
		out, _ := rlp.EncodeToBytes(us)
		return out, "add"
	case v == 1:
		out, _ := rlp.EncodeToBytes(us[:len(us)-1])
		return out, "drop"
	case v == 2:
		u := types.CopyHeader(us[0])
		u.GasUsed ^= 1
		us[0] = u
		out, _ := rlp.EncodeToBytes(us)
		return out, "field"
	default:
		return flipBit(rng, raw), "bit"
	}
}

// forge derives a header that is in no accumulator: all roots randomised, the number as asked.
func forge(rng *rand.Rand, base *block, number uint64) *block {
	h := types.CopyHeader(base.header)
	h.TxHash, h.UncleHash, h.ReceiptHash, h.Root = rndHash(rng), rndHash(rng), rndHash(rng), rndHash(rng)
	if h.WithdrawalsHash != nil {
		w := rndHash(rng)
		h.WithdrawalsHash = &w
	}
	h.Number = new(big.Int).SetUint64(number)
	raw, _ := rlp.EncodeToBytes(h)
	return &block{name: "forged(" + base.name + ")", synthetic: true, era: eraOf(number), number: number, hash: h.Hash(), header: h,
		hdrRLP: raw, proof: base.proof}
}

func (e *engine) nothingHash(rng *rand.Rand, u []*block) ([]byte, string) {
	b := u[1+rng.Intn(len(u)-1)]
	switch rng.Intn(6) {
	case 0:
		h := rndHash(rng)
		return h[:], "rand"
	case 1:
		return flipBit(rng, b.hash[:]), "bit"
	case 2:
		return append([]byte{}, b.hash[:31]...), "trunc1"
	case 3:
		return append(append([]byte{}, b.hash[:]...), 0), "ext1"
	case 4:
		return make([]byte, 32), "zero"
	default:
		return []byte{}, "empty"
	}
}

func (e *engine) concretise(a *absCase, round int) *concrete {
	rng := rand.New(rand.NewSource(e.seed*1_000_003 + int64(a.I)*101 + int64(round)))
	n := a.N
	hdrKey := a.Kt == "hash" || a.Kt == "num"
	u := e.universe(rng, n, hdrKey || a.Ck == "hdr")
	if a.Ck == "hdr" && a.Pf < 0 { // the model's block -pf has a historical-roots proof: a merge-to-Capella mainnet header
		var bs []*block
		for _, b := range e.all {
			if b.proven && b.era == "bellatrix" {
				bs = append(bs, b)
			}
		}
		if len(bs) > 0 {
			u[-a.Pf] = bs[rng.Intn(len(bs))]
		}
	}
	c := &concrete{idx: a.I, extra: map[common.Hash]*block{}, mode: a.Sm, ib: "F"}
	if a.Bound {
		c.ib = "T"
	}
	names := make([]string, 0, n)
	for i := 1; i <= n; i++ {
		names = append(names, u[i].name)
	}
	c.blocks = strings.Join(names, ",")
	var vs []string
	F := n + 1
	// the forged header of this case (only materialised when the case refers to it)
	var forged *block
	getForged := func() *block {
		if forged == nil {
			base := u[1+rng.Intn(n)]
			num := base.number + 7777
			if a.Ck == "hdr" && a.Hid == F && a.Nid >= 1 && a.Nid <= n {
				num = u[a.Nid].number
			}
			forged = forge(rng, base, num)
			c.extra[forged.hash] = forged
		}
		return forged
	}
	// ---- source
	if a.Sm == "lie" {
		c.lie = u[a.Sj]
	}
	// ---- key
	var sel byte
	switch a.Kt {
	case "hash":
		sel = 0
	case "body":
		sel = 1
	case "rcpt":
		sel = 2
	case "num":
		sel = 3
	default:
		sel = []byte{4, 5, 6, 0x7f, 0xff}[rng.Intn(5)]
	}
	var keyBlock *block
	if a.Kt == "num" {
		switch {
		case a.Kh >= 1 && a.Kh <= n:
			keyBlock = u[a.Kh]
			c.key = numKey(keyBlock.number)
		case a.Kh == F && a.Kx:
			c.key = numKey(getForged().number)
			c.key = numKey(getForged().number)
			if !(a.Ck == "hdr" && a.Hid == F && a.Nid == F) {
				c.key = numKey(u[1].number + 7777 + 13) // a number no header of this case carries
			}
		default:
			switch rng.Intn(4) {
			case 0:
				c.key, vs = numKey(5), append(vs, "key:othernum")
			case 1:
				c.key, vs = numKey(u[1].number)[:8], append(vs, "key:trunc1")
			case 2:
				c.key, vs = append(numKey(u[1].number), 0), append(vs, "key:ext1")
			default:
				c.key, vs = numKey(u[1].number^(1<<uint(rng.Intn(40)))), append(vs, "key:bit")
			}
		}
	} else {
		switch {
		case a.Kh >= 1 && a.Kh <= n:
			keyBlock = u[a.Kh]
			c.key = keyOf(sel, keyBlock.hash[:])
		case a.Kh == F:
			c.key = keyOf(sel, getForged().hash[:])
		default:
			h, v := e.nothingHash(rng, u)
			c.key, vs = keyOf(sel, h), append(vs, "key:"+v)
		}
	}
	if a.Kx { // malformed length with the genuine value embedded: bytes after the number / between selector and hash
		x := make([]byte, 1+rng.Intn(8))
		if rng.Intn(2) == 0 {
			rng.Read(x)
		}
		if a.Kt == "num" {
			c.key, vs = append(c.key, x...), append(vs, fmt.Sprintf("key:overlong+%d", len(x)))
		} else {
			c.key, vs = append(append([]byte{c.key[0]}, x...), c.key[1:]...), append(vs, fmt.Sprintf("key:inserted+%d", len(x)))
		}
		keyBlock = nil
	}
	// the block whose genuine fields are the starting point of field-level mutations
	base := keyBlock
	if base == nil {
		base = c.lie
	}
	if base == nil {
		base = u[1]
	}
	blockOfRoot := func(v int) *block { return u[v/10] }
	// ---- content
	switch a.Ck {
	case "hdr":
		var hb *block
		if a.Hid == F {
			hb = getForged()
		} else {
			hb = u[a.Hid]
		}
		var proof []byte
		if a.Pf >= 1 {
			proof = u[a.Pf].proof
		} else if a.Pf < 0 {
			proof = e.slotBeyond(rng, u[-a.Pf].proof)
			vs = append(vs, "proof:slotbeyond")
		} else {
			pb := hb
			if !pb.proven {
				pb = u[1]
			}
			var v string
			switch rng.Intn(10) {
			case 0:
				proof, v = []byte{}, "empty"
			case 1:
				proof = make([]byte, len(pb.proof))
				rng.Read(proof)
				v = "rand"
			default:
				proof, v = mutBytes(rng, pb.proof)
			}
			vs = append(vs, "proof:"+v)
		}
		c.content = encHWP(hb.hdrRLP, proof)
		c.era = hb.era
	case "body":
		var p bodyParts
		switch {
		case a.Tx >= 10:
			p.txs = blockOfRoot(a.Tx).parts.txs
		case a.Tx == 1:
			p.txs = [][]byte{}
		default:
			var v string
			p.txs, v = mutList(rng, base.parts.txs, u[1].parts.txs)
			vs = append(vs, "tx:"+v)
		}
		switch {
		case a.Un >= 10:
			p.uncles = blockOfRoot(a.Un).parts.uncles
		case a.Un == 2:
			p.uncles = []byte{0xc0}
		default:
			var v string
			p.uncles, v = e.mutUncles(rng, base.parts.uncles)
			vs = append(vs, "un:"+v)
		}
		switch {
		case a.Wd >= 10:
			p.wds = blockOfRoot(a.Wd).parts.wds
		case a.Wd == 0:
			p.wds = nil
		case a.Wd == 1:
			p.wds = [][]byte{}
		default:
			wb := base
			if wb.parts.wds == nil || len(wb.parts.wds) == 0 {
				wb = u[2]
			}
			var v string
			p.wds, v = mutList(rng, wb.parts.wds, u[2].parts.wds)
			if p.wds == nil {
				p.wds = [][]byte{}
			}
			vs = append(vs, "wd:"+v)
		}
		c.content = encBody(p)
		if a.Nc { // the same body with an empty list written as a four-byte zero offset table
			zt := len(p.txs) == 0
			zw := p.wds != nil && len(p.wds) == 0
			if zt && zw && rng.Intn(3) > 0 {
				if rng.Intn(2) == 0 {
					zt = false
				} else {
					zw = false
				}
			}
			txr, wdr := encByteLists(p.txs), encByteLists(p.wds)
			if zt {
				txr = []byte{0, 0, 0, 0}
			}
			if zw {
				wdr = []byte{0, 0, 0, 0}
			}
			if p.wds == nil {
				c.content = encContainer(txr, p.uncles)
			} else {
				c.content = encContainer(txr, p.uncles, wdr)
			}
			vs = append(vs, "noncanon:zero-offset")
		}
		c.era = base.era
	case "rcpt":
		switch {
		case a.Zero:
			c.content = []byte{}
		case a.Rc >= 10:
			c.content = encReceipts(blockOfRoot(a.Rc).rcpts)
		case a.Rc == 1 || a.Nc:
			c.content = []byte{0, 0, 0, 0} // a non-empty byte string that lenient SSZ readers take for the empty list
			vs = append(vs, "rc:zero-offset")
		default:
			rb := base
			if len(rb.rcpts) == 0 {
				rb = u[1]
			}
			items, v := mutList(rng, rb.rcpts, u[2].rcpts)
			if len(items) == 0 {
				items, v = [][]byte{flipBit(rng, rb.rcpts[0])}, "bit"
			}
			c.content = encReceipts(items)
			vs = append(vs, "rc:"+v)
		}
		c.era = base.era
	default: // junk: undecodable or of another kind
		kb := base
		switch rng.Intn(7) {
		case 0:
			c.content = make([]byte, 1+rng.Intn(200))
			rng.Read(c.content)
			vs = append(vs, "junk:rand")
		case 1:
			c.content, vs = kb.hwp, append(vs, "junk:hwp")
		case 2:
			c.content, vs = kb.body, append(vs, "junk:body")
		case 3:
			c.content, vs = encReceipts(u[1].rcpts), append(vs, "junk:rcpt")
		case 4:
			c.content, vs = []byte{0, 0, 0, 0}, append(vs, "junk:zero-offset")
		case 5:
			c.content, vs = []byte{8, 0, 0, 0, 8, 0, 0, 0}, append(vs, "junk:offsets-only")
		default:
			g := kb.body
			if sel == 0 || sel == 3 {
				g = kb.hwp
			}
			c.content, vs = append([]byte{}, g[:len(g)/2]...), append(vs, "junk:half")
		}
		// a "junk" content must not accidentally be the right kind for the key: cross-kind only
		if (a.Kt == "hash" || a.Kt == "num") && string(c.content) == string(kb.hwp) {
			c.content = kb.body
		}
		if a.Kt == "body" && string(c.content) == string(kb.body) {
			c.content = kb.hwp
		}
		if a.Kt == "rcpt" && (len(vs) > 0 && vs[len(vs)-1] == "junk:rcpt") {
			c.content = kb.hwp
		}
		c.era = kb.era
	}
	c.variant = strings.Join(vs, ",")
	if keyBlock != nil && a.Sm == "honest" {
		switch a.Kt {
		case "hash", "num":
			c.pristine = keyBlock.proven && string(c.content) == string(keyBlock.hwp)
		case "body":
			c.pristine = string(c.content) == string(keyBlock.body)
		case "rcpt":
			c.pristine = string(c.content) == string(keyBlock.rc)
		}
		if c.pristine {
			c.era = keyBlock.era
		}
	}
	return c
}

// byteMutations: whole-content single-bit / byte / truncation / extension mutations of every genuine pair.
func (e *engine) byteMutations(per int, layers map[string]bool) {
	rng := rand.New(rand.NewSource(e.seed*31337 + 5))
	for _, b := range e.all {
		pairs := []struct {
			key, content []byte
			ok           bool
		}{
			{keyOf(0, b.hash[:]), b.hwp, b.proven}, {numKey(b.number), b.hwp, b.proven},
			{keyOf(1, b.hash[:]), b.body, true}, {keyOf(2, b.hash[:]), b.rc, true},
		}
		if !b.complete {
			pairs = pairs[:2]
		}
		for _, p := range pairs {
			// the genuine pair itself (completeness sample for the vacuity guard)
			e.run(&concrete{idx: -1, variant: "genuine", blocks: b.name, key: p.key, content: p.content, mode: "honest", pristine: p.ok, era: b.era}, layers)
			for m := 0; m < per; m++ {
				mc, v := mutBytes(rng, p.content)
				e.run(&concrete{idx: -1, variant: "content:" + v, blocks: b.name, key: p.key, content: mc, mode: "honest", era: b.era}, layers)
			}
			if p.key[0] == 1 && (len(b.parts.txs) == 0 || (b.parts.wds != nil && len(b.parts.wds) == 0)) {
				// the genuine body with its empty list(s) written as a four-byte zero offset table
				txr, wdr := encByteLists(b.parts.txs), encByteLists(b.parts.wds)
				if len(b.parts.txs) == 0 {
					txr = []byte{0, 0, 0, 0}
				}
				if b.parts.wds != nil && len(b.parts.wds) == 0 {
					wdr = []byte{0, 0, 0, 0}
				}
				nc := encContainer(txr, b.parts.uncles)
				if b.parts.wds != nil {
					nc = encContainer(txr, b.parts.uncles, wdr)
				}
				e.run(&concrete{idx: -1, variant: "noncanon:zero-offset", blocks: b.name, key: p.key, content: nc, mode: "honest", era: b.era}, layers)
			}
			if (p.key[0] == 0 || p.key[0] == 3) && b.proven && b.era == "bellatrix" {
				for m := 0; m < 3; m++ {
					e.run(&concrete{idx: -1, variant: "proof:slotbeyond", blocks: b.name, key: p.key, content: encHWP(b.hdrRLP, e.slotBeyond(rng, b.proof)), mode: "honest", era: b.era}, layers)
				}
			}
			if p.key[0] == 3 {
				for _, x := range [][]byte{{0}, {1}, {0, 0, 0, 0, 0, 0, 0, 0}, []byte("trailing")} {
					e.run(&concrete{idx: -1, variant: "key:overlong", blocks: b.name, key: append(append([]byte{}, p.key...), x...), content: p.content, mode: "honest", era: b.era}, layers)
				}
			}
			// key length forms: the genuine hash / number with bytes inserted right after the selector, appended, or with
			// its first / last byte missing - a comparison that pads or crops (common.BytesToHash) takes them for the key
			for _, x := range [][]byte{{0}, {0xaa}, make([]byte, 12), bytes.Repeat([]byte{0x5c}, 32)} {
				ins := append(append([]byte{p.key[0]}, x...), p.key[1:]...)
				e.run(&concrete{idx: -1, variant: fmt.Sprintf("keyform:insert%d", len(x)), blocks: b.name, key: ins, content: p.content, mode: "honest", era: b.era}, layers)
				app := append(append([]byte{}, p.key...), x...)
				e.run(&concrete{idx: -1, variant: fmt.Sprintf("keyform:append%d", len(x)), blocks: b.name, key: app, content: p.content, mode: "honest", era: b.era}, layers)
			}
			if len(p.key) > 2 {
				e.run(&concrete{idx: -1, variant: "keyform:dropfirst", blocks: b.name, key: append([]byte{p.key[0]}, p.key[2:]...), content: p.content, mode: "honest", era: b.era}, layers)
				e.run(&concrete{idx: -1, variant: "keyform:droplast", blocks: b.name, key: append([]byte{}, p.key[:len(p.key)-1]...), content: p.content, mode: "honest", era: b.era}, layers)
			}
			for m := 0; m < per/4+1; m++ {
				mk, v := mutBytes(rng, p.key[1:])
				e.run(&concrete{idx: -1, variant: "keybytes:" + v, blocks: b.name, key: keyOf(p.key[0], mk), content: p.content, mode: "honest", era: b.era}, layers)
			}
		}
	}
}

// crossField: synthetic headers whose roots sit in the wrong fields (transactions root <-> receipts root, transactions
// root <-> uncle hash, transactions root <-> withdrawals root). The lists that hash to those roots are offered under
// the header's keys: none of them is bound (each root is compared with the field it belongs to), but a validator that
// compares a root with the wrong header field would accept them.
func (e *engine) crossField(layers map[string]bool) {
	rng := rand.New(rand.NewSource(e.seed*977 + 3))
	var legacy, sh *block
	for _, b := range e.synth {
		if b.name == "synth-legacy-uncles" {
			legacy = b
		}
		if b.name == "synth-shanghai" {
			sh = b
		}
	}
	if legacy == nil || sh == nil {
		return
	}
	mk := func(name string, base *block, f func(h *types.Header)) *block {
		h := types.CopyHeader(base.header)
		h.Extra = []byte(name)
		f(h)
		raw, _ := rlp.EncodeToBytes(h)
		b := &block{name: name, synthetic: true, era: base.era, number: base.number, hash: h.Hash(), header: h, hdrRLP: raw, proof: base.proof,
			hwp: encHWP(raw, base.proof), parts: base.parts, rcpts: base.rcpts}
		e.byHash[b.hash] = b
		return b
	}
	run := func(b *block, sel byte, content []byte, v string) {
		e.run(&concrete{idx: -1, variant: "crossfield:" + v, blocks: b.name, key: keyOf(sel, b.hash[:]), content: content, mode: "honest", era: b.era}, layers)
	}
	_ = rng
	// transactions root <-> receipts root
	x1 := mk("x-tx-rc", legacy, func(h *types.Header) { h.TxHash, h.ReceiptHash = legacy.header.ReceiptHash, legacy.header.TxHash })
	run(x1, 2, legacy.rc, "tx-rc")
	run(x1, 1, legacy.body, "tx-rc")
	x1s := mk("x-tx-rc-sh", sh, func(h *types.Header) { h.TxHash, h.ReceiptHash = sh.header.ReceiptHash, sh.header.TxHash })
	run(x1s, 2, sh.rc, "tx-rc")
	run(x1s, 1, sh.body, "tx-rc")
	// receipts root kept in the uncle / state-root position too: a receipts list against every other 32-byte field
	x2 := mk("x-rc-un", legacy, func(h *types.Header) { h.UncleHash, h.ReceiptHash = legacy.header.ReceiptHash, legacy.header.UncleHash })
	run(x2, 2, legacy.rc, "rc-un")
	run(x2, 1, legacy.body, "rc-un")
	x3 := mk("x-rc-root", legacy, func(h *types.Header) { h.Root, h.ReceiptHash = legacy.header.ReceiptHash, legacy.header.Root })
	run(x3, 2, legacy.rc, "rc-stateroot")
	// transactions root <-> uncle hash
	x4 := mk("x-tx-un", legacy, func(h *types.Header) { h.TxHash, h.UncleHash = legacy.header.UncleHash, legacy.header.TxHash })
	run(x4, 1, legacy.body, "tx-un")
	// transactions root <-> withdrawals root, receipts root <-> withdrawals root
	x5 := mk("x-tx-wd", sh, func(h *types.Header) {
		w, t := *sh.header.WithdrawalsHash, sh.header.TxHash
		h.TxHash, h.WithdrawalsHash = w, &t
	})
	run(x5, 1, sh.body, "tx-wd")
	x6 := mk("x-rc-wd", sh, func(h *types.Header) {
		w, r := *sh.header.WithdrawalsHash, sh.header.ReceiptHash
		h.ReceiptHash, h.WithdrawalsHash = w, &r
	})
	run(x6, 1, sh.body, "rc-wd")
	run(x6, 2, sh.rc, "rc-wd")
	// parent hash / state root carrying the transactions root
	x7 := mk("x-tx-root", legacy, func(h *types.Header) { h.Root, h.TxHash = legacy.header.TxHash, legacy.header.Root })
	run(x7, 1, legacy.body, "tx-stateroot")
}

// lostErrors: a body of every block with EVERY OTHER field genuine and the uncles field no RLP list at all (and, for blocks
// with withdrawals, one withdrawal no RLP): a decoder whose pending error is overwritten by a later field that decodes fine
// accepts such a body - the undecodable uncles read as "no uncles", which is what every post-merge header says.
func (e *engine) lostErrors(layers map[string]bool) {
	for _, b := range e.all {
		if !b.complete {
			continue
		}
		for i, bad := range [][]byte{{0xc1}, {0xc0, 0x00}, {0x80}, {}, {0xf8}} {
			p := bodyParts{txs: b.parts.txs, uncles: bad, wds: b.parts.wds}
			e.run(&concrete{idx: -1, variant: fmt.Sprintf("lost:un-badrlp%d", i), blocks: b.name, key: keyOf(1, b.hash[:]), content: encBody(p), mode: "honest", era: b.era}, layers)
		}
		// the other container of the same (empty) withdrawals: a Shanghai block without withdrawals offered in the two-field legacy
		// container, a pre-Shanghai block offered in the Shanghai container with the empty list (F-C02-7 / sweep mutant D/01)
		if b.parts.wds != nil && len(b.parts.wds) == 0 {
			p := bodyParts{txs: b.parts.txs, uncles: b.parts.uncles}
			e.run(&concrete{idx: -1, variant: "container:legacy-for-shanghai", blocks: b.name, key: keyOf(1, b.hash[:]), content: encBody(p), mode: "honest", era: b.era}, layers)
		}
		if b.parts.wds == nil {
			p := bodyParts{txs: b.parts.txs, uncles: b.parts.uncles, wds: [][]byte{}}
			e.run(&concrete{idx: -1, variant: "container:shanghai-for-legacy", blocks: b.name, key: keyOf(1, b.hash[:]), content: encBody(p), mode: "honest", era: b.era}, layers)
		}
		if len(b.parts.wds) > 1 {
			wds := append([][]byte{}, b.parts.wds...)
			wds[0] = []byte{0xc1}
			p := bodyParts{txs: b.parts.txs, uncles: b.parts.uncles, wds: wds}
			e.run(&concrete{idx: -1, variant: "lost:wd0-badrlp", blocks: b.name, key: keyOf(1, b.hash[:]), content: encBody(p), mode: "honest", era: b.era}, layers)
		}
	}
}

// collisions: lists whose root shares the first / last two bytes with the key header's root (found by search): a
// validator that compares a prefix or suffix of a root instead of all 32 bytes accepts them.
func (e *engine) collisions(layers map[string]bool) {
	rng := rand.New(rand.NewSource(e.seed*4099 + 11))
	var b *block
	for _, s := range e.synth {
		if s.name == "synth-legacy-uncles" {
			b = s
		}
	}
	if b == nil {
		return
	}
	match := func(got, want common.Hash, suffix bool) bool {
		if suffix {
			return got[30] == want[30] && got[31] == want[31] && got != want
		}
		return got[0] == want[0] && got[1] == want[1] && got != want
	}
	for _, suffix := range []bool{false, true} {
		tag := "prefix2"
		if suffix {
			tag = "suffix2"
		}
		// receipts: vary the cumulative gas of the last receipt
		var rs types.Receipts
		for _, raw := range b.rcpts {
			r := new(types.Receipt)
			_ = r.UnmarshalBinary(raw)
			rs = append(rs, r)
		}
		for try := 0; try < 400000; try++ {
			rs[len(rs)-1].CumulativeGasUsed = uint64(rng.Int63())
			if match(types.DeriveSha(rs, trie.NewStackTrie(nil)), b.header.ReceiptHash, suffix) {
				items := [][]byte{}
				for _, r := range rs {
					raw, _ := r.MarshalBinary()
					items = append(items, raw)
				}
				e.run(&concrete{idx: -1, variant: "collide:rc-" + tag, blocks: b.name, key: keyOf(2, b.hash[:]), content: encReceipts(items), mode: "honest", era: b.era}, layers)
				break
			}
		}
		// uncles: vary the gas used of the first uncle
		var us []*types.Header
		_ = rlp.DecodeBytes(b.parts.uncles, &us)
		for try := 0; try < 400000; try++ {
			u := types.CopyHeader(us[0])
			u.GasUsed = uint64(rng.Int63())
			us[0] = u
			if match(types.CalcUncleHash(us), b.header.UncleHash, suffix) {
				raw, _ := rlp.EncodeToBytes(us)
				e.run(&concrete{idx: -1, variant: "collide:un-" + tag, blocks: b.name, key: keyOf(1, b.hash[:]),
					content: encBody(bodyParts{txs: b.parts.txs, uncles: raw}), mode: "honest", era: b.era}, layers)
				break
			}
		}
		// transactions: append a fresh legacy transaction with a varying nonce
		for try := 0; try < 400000; try++ {
			tx := types.NewTx(&types.LegacyTx{Nonce: uint64(rng.Int63()), GasPrice: big.NewInt(1), Gas: 21000, Value: big.NewInt(1), V: big.NewInt(27), R: big.NewInt(1), S: big.NewInt(1)})
			raw, _ := tx.MarshalBinary()
			p := &bodyParts{txs: append(append([][]byte{}, b.parts.txs...), raw), uncles: b.parts.uncles, canon: true}
			r, ok := rootsOfBody(p)
			if ok && match(r.tx, b.header.TxHash, suffix) {
				e.run(&concrete{idx: -1, variant: "collide:tx-" + tag, blocks: b.name, key: keyOf(1, b.hash[:]), content: encBody(*p), mode: "honest", era: b.era}, layers)
				break
			}
		}
	}
}

// ---- entry point ------------------------------------------------------------------------------------

func Main(args []string) error {
	fs := flag.NewFlagSet("history", flag.ContinueOnError)
	cases := fs.String("cases", "", "ndjson file with the abstract cases printed by TLC")
	out := fs.String("out", "trace.ndjson", "ndjson trace to write")
	repo := fs.String("repo", "/repo", "shisui working tree (test vectors are read from it)")
	seed := fs.Int64("seed", 1, "seed of every random choice")
	rounds := fs.Int("rounds", 1, "concretisations per abstract case")
	mut := fs.Int("mut", 30, "whole-content byte mutations per genuine (key, content) pair")
	layersF := fs.String("layers", "stub,rpc,net", "stub | rpc | net (comma separated)")
	collide := fs.Bool("collide", false, "search two-byte prefix / suffix collisions of transaction, uncle and receipt roots (seconds)")
	if err := fs.Parse(args); err != nil {
		return err
	}
	log.SetDefault(log.NewLogger(log.DiscardHandler()))
	w, err := tracelog.Create(*out)
	if err != nil {
		return err
	}
	defer w.Close()
	e, err := newEngine(*repo, *seed, w)
	if err != nil {
		return err
	}
	layers := map[string]bool{}
	for _, l := range strings.Split(*layersF, ",") {
		layers[strings.TrimSpace(l)] = true
	}
	if layers["net"] {
		if e.net, err = newNetLayer(e); err != nil {
			return err
		}
	}
	var blocks []map[string]any
	for _, b := range e.all {
		blocks = append(blocks, map[string]any{"name": b.name, "era": b.era, "synthetic": b.synthetic, "wd": b.wdKind(), "emptyRc": b.emptyRc(),
			"uncles": b.hasUncles(), "txs": len(b.parts.txs), "hash": b.hash.Hex(), "proven": b.proven, "complete": b.complete})
	}
	w.Emit(map[string]any{"ev": "init", "seed": *seed, "blocks": blocks})
	if *cases != "" {
		f, err := os.Open(*cases)
		if err != nil {
			return err
		}
		defer f.Close()
		sc := bufio.NewScanner(f)
		sc.Buffer(make([]byte, 1<<20), 1<<24)
		for sc.Scan() {
			if len(strings.TrimSpace(sc.Text())) == 0 {
				continue
			}
			var a absCase
			if err := json.Unmarshal(sc.Bytes(), &a); err != nil {
				return fmt.Errorf("bad case line: %v", err)
			}
			if a.N < 3 {
				return fmt.Errorf("case %d: universe size %d not supported", a.I, a.N)
			}
			for r := 0; r < *rounds; r++ {
				e.run(e.concretise(&a, r), layers)
			}
		}
		if err := sc.Err(); err != nil {
			return err
		}
	}
	if *mut > 0 {
		e.byteMutations(*mut, layers)
		e.crossField(layers)
		e.lostErrors(layers)
	}
	if *collide {
		e.collisions(layers)
	}
	return nil
}

var _ validation.Oracle = (*source)(nil)
