package wire

// guard runs one handling call on its own goroutine under recover() with a watchdog.
//
//	returned            -> reply | empty | ok | error
//	panicked            -> panic  + signature from the panicking goroutine's stack
//	not back in time    -> the goroutine dump decides: blocked in a bare channel / lock operation (no select with a timer
//	                       or context, no sleep, no I/O) and still in the same frame after a grace period = wedge;
//	                       anything else = slow (no observation; the call is left running)

import (
	"fmt"
	"regexp"
	"runtime"
	"runtime/debug"
	"strings"
	"sync"
	"time"

	"verifharness/common"
)

type callResult struct {
	talk  bool   // a talk handler: the result is a reply (possibly empty), there is no error value
	reply []byte // talk handlers: the reply; others: nil
	err   error
}

type outcome struct {
	Out   string
	Reply []byte
	Err   string
	Sig   sig
	Stack string
}

var (
	watchdog = 20 * time.Second
	grace    = 10 * time.Second
)

func toOutcome(cr callResult) outcome {
	switch {
	case cr.talk && len(cr.reply) > 0:
		return outcome{Out: "reply", Reply: cr.reply}
	case cr.talk:
		return outcome{Out: "empty"}
	case cr.err != nil:
		e := cr.err.Error()
		if len(e) > 160 {
			e = e[:160]
		}
		return outcome{Out: "error", Err: e}
	}
	return outcome{Out: "ok"}
}

type gstate struct {
	state string // the bracketed wait reason, without the duration
	top   string // first frames
	text  string
}

var reGHeader = regexp.MustCompile(`^goroutine (\d+) \[([^\]]*)\]:`)

func goroutineState(gid int64) gstate {
	buf := make([]byte, 1<<20)
	for {
		n := runtime.Stack(buf, true)
		if n < len(buf) {
			buf = buf[:n]
			break
		}
		buf = make([]byte, 2*len(buf))
	}
	want := fmt.Sprintf("goroutine %d [", gid)
	for _, sec := range strings.Split(string(buf), "\n\n") {
		if !strings.HasPrefix(sec, want) {
			continue
		}
		m := reGHeader.FindStringSubmatch(sec)
		st := ""
		if m != nil {
			st = strings.Split(m[2], ",")[0]
		}
		lines := strings.Split(sec, "\n")
		var top []string
		for _, l := range lines[1:] {
			if l != "" && l[0] != '\t' {
				if i := strings.LastIndex(l, "("); i > 0 {
					top = append(top, l[:i])
				}
			}
			if len(top) >= 6 {
				break
			}
		}
		if len(sec) > 6000 {
			sec = sec[:6000]
		}
		return gstate{state: st, top: strings.Join(top, " < "), text: sec}
	}
	return gstate{state: "gone"}
}

// bareBlocked: waiting in an operation that only another goroutine's explicit action can end.
func bareBlocked(s gstate) bool {
	for _, p := range []string{"chan receive", "chan send", "select (no cases)", "sync.Mutex.Lock", "sync.RWMutex", "semacquire", "sync.WaitGroup.Wait", "sync.Cond.Wait"} {
		if strings.HasPrefix(s.state, p) {
			return true
		}
	}
	return false
}

// wedges confirmed so far in this process, by blocked frame: once the same blockage has been confirmed twice, a further call
// found blocked in that very frame is reported at once and the watchdog shrinks (a wedged input class would otherwise cost
// watchdog + grace per case; shortening can only turn observations into "slow", never into a verdict)
var (
	confirmedMu sync.Mutex
	confirmed   = map[string]int{}
)

func wedgeKnown(top string) bool {
	confirmedMu.Lock()
	defer confirmedMu.Unlock()
	return confirmed[top] >= 2
}

func currentWatchdog() time.Duration {
	confirmedMu.Lock()
	defer confirmedMu.Unlock()
	for _, n := range confirmed {
		if n >= 2 && watchdog > 5*time.Second {
			return 5 * time.Second
		}
	}
	return watchdog
}

func guard(f func() callResult) outcome {
	done := make(chan outcome, 1)
	ready := make(chan int64, 1)
	go func() {
		ready <- common.Goid()
		defer func() {
			if r := recover(); r != nil {
				st := string(debug.Stack())
				msg := fmt.Sprint(r)
				if e, ok := r.(error); ok {
					msg = e.Error()
				}
				done <- outcome{Out: "panic", Sig: parseStack(msg, st), Stack: st}
			}
		}()
		done <- toOutcome(f())
	}()
	gid := <-ready
	t := time.NewTimer(currentWatchdog())
	defer t.Stop()
	select {
	case o := <-done:
		return o
	case <-t.C:
	}
	s1 := goroutineState(gid)
	if !bareBlocked(s1) {
		return outcome{Out: "slow", Stack: s1.text, Err: "not back after " + watchdog.String() + ", state [" + s1.state + "]"}
	}
	if !wedgeKnown(s1.top) {
		select {
		case o := <-done:
			return o
		case <-time.After(grace):
		}
	}
	s2 := goroutineState(gid)
	if bareBlocked(s2) && s2.top == s1.top {
		confirmedMu.Lock()
		confirmed[s2.top]++
		confirmedMu.Unlock()
		fr := parseStack("blocked ["+s2.state+"]", s2.text)
		fr.Cls = "blocked [" + s2.state + "]"
		return outcome{Out: "wedge", Sig: fr, Stack: s2.text}
	}
	return outcome{Out: "slow", Stack: s2.text, Err: "not back after " + (watchdog + grace).String() + ", state [" + s2.state + "]"}
}
