package wire

// The runner executes concretised cases against one world and writes one event per handling call.

import (
	"bytes"
	"context"
	"crypto/sha1"
	"encoding/binary"
	"encoding/hex"
	"encoding/json"
	"errors"
	"fmt"
	"math/rand"
	"time"

	cp "github.com/cockroachdb/pebble"
	"github.com/ethereum/go-ethereum/p2p/enr"
	"github.com/ethereum/go-ethereum/rlp"
	"github.com/protolambda/ztyp/tree"
	"github.com/zen-eth/shisui/portalwire"
	pingext "github.com/zen-eth/shisui/portalwire/ping_ext"
	htypes "github.com/zen-eth/shisui/types/history"
)

type runner struct {
	w         *world
	vs        *vectorSet
	seed      int64
	live      bool // e2e: inputs travel over the switch, the networks run their own loops
	emit      func(ev map[string]any)
	begin     func(tag string)
	beginWith func(tag string, info map[string]any)
	bg        []func() // slow calls running in the background: collectors
	aw        map[string]*awaited
	nconn     int
}

var summariesKey = []byte("historical_summaries")

func (x *runner) sumLen() int {
	v, cl, err := x.w.beaconDB.Get(summariesKey)
	if err != nil {
		return -1
	}
	n := len(v)
	cl.Close()
	return n
}

// pre establishes the case's precondition on the stores. Returns what was done.
func (x *runner) pre(rng *rand.Rand, c *kase, key []byte, vec *vector) string {
	n := x.w.nets[c.Net]
	switch c.St {
	case "stored":
		if vec == nil || n == nil {
			return "none"
		}
		o := guard(func() callResult {
			return callResult{err: n.Store.Put(vec.key, n.P.ToContentId(vec.key), vec.content)}
		})
		return "put:" + o.Out
	case "nosum":
		x.w.beaconDB.Delete(summariesKey, cp.NoSync)
		return "nosum"
	case "sum":
		if v, ok := x.vs.get("beacon", 20, 0); ok && len(v.key) == 9 {
			x.w.beaconDB.Set(summariesKey, cat(v.key[1:], v.content), cp.NoSync)
		} else {
			x.w.beaconDB.Set(summariesKey, cat(u64le(1000), filler(rng, 500)), cp.NoSync)
		}
		return "sum"
	case "sumshort":
		x.w.beaconDB.Set(summariesKey, filler(rng, 3), cp.NoSync)
		return "sumshort"
	}
	return "none"
}

func minLen(keys [][]byte) int {
	if len(keys) == 0 {
		return -1
	}
	m := len(keys[0])
	for _, k := range keys {
		if len(k) < m {
			m = len(k)
		}
	}
	return m
}

// seenKeys: the content keys a request hands on, as the message decodes (facts for the judge; under recover).
func seenKeys(msg []byte) (keys [][]byte, dec bool) {
	defer func() {
		if recover() != nil {
			keys, dec = nil, false
		}
	}()
	if len(msg) < 1 {
		return nil, false
	}
	switch msg[0] {
	case portalwire.FINDCONTENT:
		fc := &portalwire.FindContent{}
		if fc.UnmarshalSSZ(msg[1:]) != nil {
			return nil, false
		}
		return [][]byte{fc.ContentKey}, true
	case portalwire.OFFER:
		of := &portalwire.Offer{}
		if of.UnmarshalSSZ(msg[1:]) != nil {
			return nil, false
		}
		return of.ContentKeys, true
	case portalwire.PING:
		return nil, (&portalwire.Ping{}).UnmarshalSSZ(msg[1:]) == nil
	case portalwire.FINDNODES:
		return nil, (&portalwire.FindNodes{}).UnmarshalSSZ(msg[1:]) == nil
	}
	return nil, false
}

// decodeReply: does a talk response decode as the message type it claims (and the type the request asks for)?
func decodeReply(reqCode int, ver int, reply []byte) (rcode int, ok bool, why string) {
	defer func() {
		if r := recover(); r != nil {
			ok, why = false, fmt.Sprint("decoder panicked: ", r)
		}
	}()
	if len(reply) == 0 {
		return -1, false, "empty"
	}
	rcode = int(reply[0])
	body := reply[1:]
	switch reply[0] {
	case portalwire.PONG:
		pong := &portalwire.Pong{}
		if err := pong.UnmarshalSSZ(body); err != nil {
			return rcode, false, "pong: " + err.Error()
		}
		var err error
		switch pong.PayloadType {
		case pingext.ClientInfo:
			err = (&pingext.ClientInfoAndCapabilitiesPayload{}).UnmarshalSSZ(pong.Payload)
		case pingext.BasicRadius:
			err = (&pingext.BasicRadiusPayload{}).UnmarshalSSZ(pong.Payload)
		case pingext.HistoryRadius:
			err = (&pingext.HistoryRadiusPayload{}).UnmarshalSSZ(pong.Payload)
		case pingext.Error:
			err = (&pingext.ErrorPayload{}).UnmarshalSSZ(pong.Payload)
		default:
			err = fmt.Errorf("unknown payload type %d", pong.PayloadType)
		}
		if err != nil {
			return rcode, false, "pong payload: " + err.Error()
		}
	case portalwire.NODES:
		nodes := &portalwire.Nodes{}
		if err := nodes.UnmarshalSSZ(body); err != nil {
			return rcode, false, "nodes: " + err.Error()
		}
		for _, b := range nodes.Enrs {
			if err := rlp.DecodeBytes(b, &enr.Record{}); err != nil {
				return rcode, false, "nodes enr: " + err.Error()
			}
		}
	case portalwire.CONTENT:
		if len(body) < 1 {
			return rcode, false, "content: no selector"
		}
		var err error
		switch body[0] {
		case portalwire.ContentConnIdSelector:
			err = (&portalwire.ConnectionId{}).UnmarshalSSZ(body[1:])
		case portalwire.ContentRawSelector:
			err = (&portalwire.Content{}).UnmarshalSSZ(body[1:])
		case portalwire.ContentEnrsSelector:
			enrs := &portalwire.Enrs{}
			err = enrs.UnmarshalSSZ(body[1:])
			for _, b := range enrs.Enrs {
				if err == nil {
					err = rlp.DecodeBytes(b, &enr.Record{})
				}
			}
		default:
			err = fmt.Errorf("unknown selector %d", body[0])
		}
		if err != nil {
			return rcode, false, "content: " + err.Error()
		}
	case portalwire.ACCEPT:
		var err error
		if ver == 0 {
			a := &portalwire.Accept{}
			if err = a.UnmarshalSSZ(body); err == nil && len(a.ContentKeys) == 0 {
				err = errors.New("bitlist without delimiter")
			}
		} else {
			err = (&portalwire.AcceptV1{}).UnmarshalSSZ(body)
		}
		if err != nil {
			return rcode, false, "accept: " + err.Error()
		}
	default:
		return rcode, false, fmt.Sprintf("not a response code: %d", reply[0])
	}
	if reqCode >= 0 && rcode != reqCode+1 {
		return rcode, false, fmt.Sprintf("response code %d to request code %d", rcode, reqCode)
	}
	return rcode, true, ""
}

func digest(parts ...[]byte) string {
	h := sha1.New()
	for _, p := range parts {
		h.Write(u32le(len(p)))
		h.Write(p)
	}
	return hex.EncodeToString(h.Sum(nil))[:16]
}

func hexHead(b []byte) string {
	if len(b) > 48 {
		return hex.EncodeToString(b[:48]) + fmt.Sprintf("..(%d)", len(b))
	}
	return hex.EncodeToString(b)
}

func (x *runner) caseMap(c *kase) map[string]any {
	b, _ := json.Marshal(c)
	var m map[string]any
	json.Unmarshal(b, &m)
	return m
}

// record writes the event of one handling call.
func (x *runner) record(c *kase, i, fill int, mode, mut, pre string, facts map[string]any, o outcome, reqCode, ver int, dig, in string, inlen int, extra map[string]any) {
	ev := map[string]any{"ev": "eval", "i": i, "fill": fill, "mode": mode, "c": x.caseMap(c), "f": facts, "mut": mut, "pre": pre,
		"out": o.Out, "rcode": -1, "rdec": true, "rwhy": "", "site": o.Sig.Site, "inner": o.Sig.Inner, "cls": o.Sig.Cls, "msg": o.Sig.Msg, "created": o.Sig.Created,
		"err": o.Err, "dig": dig, "in": in, "len": inlen}
	if o.Out == "reply" {
		rc, ok, why := decodeReply(reqCode, ver, o.Reply)
		ev["rcode"], ev["rdec"], ev["rwhy"] = rc, ok, why
		ev["reply"] = hexHead(o.Reply)
	}
	if o.Out == "panic" || o.Out == "wedge" || o.Out == "slow" {
		st := o.Stack
		if len(st) > 5000 {
			st = st[:5000]
		}
		ev["stack"] = st
	}
	for k, v := range extra {
		ev[k] = v
	}
	x.emit(ev)
}

// announce writes what is about to be handed to the code (facts, mutation, input) before the call: if the call kills the
// process, the parent takes the crash event's attributes from here.
func (x *runner) announce(i, fill int, f map[string]any, mut, pre, dig, in string, inlen int) {
	x.beginWith(fmt.Sprintf("%d/%d", i, fill), map[string]any{"f": f, "mut": mut, "pre": pre, "dig": dig, "in": in, "len": inlen})
}

func (x *runner) facts(c *kase, mlen, kmin, ksel, kn int, dec bool) map[string]any {
	sum := -1
	if c.Net == "beacon" {
		sum = x.sumLen()
	}
	return map[string]any{"ch": c.Ch, "net": c.Net, "kind": c.Kind, "code": c.Code, "sub": c.Sub, "mlen": mlen, "kmin": kmin, "ksel": ksel, "kn": kn, "sumlen": sum, "dec": dec, "zl": false,
		"fu": c.Fu, "seqhigh": c.St == "seqhigh"}
}

// zeroLenItem: read as an SSZ list of variable-size items (offset table first), does b hold a zero-length item?
func zeroLenItem(b []byte) bool {
	if len(b) < 4 {
		return false
	}
	first := int(binary.LittleEndian.Uint32(b))
	if first%4 != 0 || first < 4 || first > len(b) || first/4 > 128 {
		return false
	}
	prev := first
	for i := 1; i < first/4; i++ {
		o := int(binary.LittleEndian.Uint32(b[4*i:]))
		if o < prev || o > len(b) {
			return false
		}
		if o == prev {
			return true
		}
		prev = o
	}
	return prev == len(b)
}

func selOf(k []byte) int {
	if len(k) == 0 {
		return -1
	}
	return int(k[0])
}

// ---- building the messages of the protocol channels ----------------------------------------------------------

func (x *runner) buildReq(rng *rand.Rand, c *kase, fill int) (msg []byte, key []byte, vec *vector, offs []int) {
	switch c.Kind {
	case "none":
		return []byte{}, nil, nil, nil
	case "raw":
		return cat([]byte{byte(c.Code)}, filler(rng, c.N)), nil, nil, nil
	case "ping":
		return cat([]byte{portalwire.PING}, pingBody(rng, c)), nil, nil, []int{11}
	case "findnodes":
		var ds []byte
		for k := 0; k < c.Cnt; k++ {
			d := 0
			switch c.Sub {
			case "mid":
				d = 1 + rng.Intn(256)
			case "big":
				d = 257 + rng.Intn(65000)
			case "mix":
				d = []int{0, 256, 255, 300, 65535, 1}[(k+fill)%6]
			}
			ds = append(ds, u16le(d)...)
		}
		b := cat(u32le(4), ds)
		offClass(b, 0, c.Off, -1)
		return cat([]byte{portalwire.FINDNODES}, resize(rng, b, c.N)), nil, nil, []int{1}
	case "findcontent":
		key, vec = x.shapedKey(rng, c, fill)
		b := cat(u32le(4), key)
		offClass(b, 0, c.Off, -1)
		return cat([]byte{portalwire.FINDCONTENT}, resize(rng, b, c.N)), key, vec, []int{1}
	case "offer":
		key, vec = x.shapedKey(rng, c, fill)
		var keys [][]byte
		for k := 0; k < c.Cnt-1; k++ {
			kk := *c
			kk.Kc = "exact"
			if kk.Ksel < 0 {
				kk.Ksel = map[string]int{"history": 0, "beacon": 16, "state": 32}[c.Net]
			}
			o, _ := x.shapedKey(rng, &kk, 2*k+1) // synthesised, distinct
			keys = append(keys, o)
		}
		if c.Cnt >= 1 {
			if c.Sub == "dup" && len(keys) > 0 {
				key = keys[0]
			}
			keys = append(keys, key)
		}
		b := cat(u32le(4), sszList(keys))
		listOffsets(b, 0, 4, len(keys), c)
		offs = []int{1}
		for k := range keys {
			offs = append(offs, 5+4*k)
		}
		return cat([]byte{portalwire.OFFER}, resize(rng, b, c.N)), key, vec, offs
	}
	return []byte{}, nil, nil, nil
}

func (x *runner) buildResp(rng *rand.Rand, c *kase, fill int, p *peer) (in input) {
	if c.Sub == "none" {
		in.msg = []byte{}
		return
	}
	if c.Sub == "code" {
		in.msg = cat([]byte{byte(c.Code)}, filler(rng, c.N))
		if c.Kind == "accept" {
			in.keys = [][]byte{wellFormedKey(rng, "history", 0)}
		}
		return
	}
	switch c.Kind {
	case "pong":
		in.msg = cat([]byte{portalwire.PONG}, pingBody(rng, c))
	case "nodes":
		items, dists := x.enrItems(rng, c.Sub, c.Cnt, p.Self())
		b := cat([]byte{1}, u32le(5), sszList(items))
		listOffsets(b, 1, 5, len(items), c)
		in.msg = cat([]byte{portalwire.NODES}, resize(rng, b, c.N))
		in.dists = dists
	case "content":
		switch c.Sub {
		case "nosel":
			in.msg = []byte{portalwire.CONTENT}
		case "unksel", "raw":
			in.msg = cat([]byte{portalwire.CONTENT, byte(c.Sv)}, filler(rng, c.N))
		case "connid":
			in.msg = cat([]byte{portalwire.CONTENT, 0}, filler(rng, c.N))
			in.slow = c.N == 2
		case "enrs":
			items, _ := x.enrItems(rng, c.Pl, c.Cnt, p.Self())
			b := cat(u32le(4), sszList(items))
			listOffsets(b, 0, 4, len(items), c)
			in.msg = cat([]byte{portalwire.CONTENT, 2}, resize(rng, b, c.N))
		}
	case "accept":
		for k := 0; k < c.Cnt; k++ {
			in.keys = append(in.keys, wellFormedKey(rng, "history", 0))
		}
		var list []byte
		bits := func(n int, set func(i int) bool) []byte {
			b := make([]byte, n/8+1)
			for i := 0; i < n; i++ {
				if set(i) {
					b[i/8] |= 1 << uint(i%8)
				}
			}
			b[n/8] |= 1 << uint(n%8)
			return b
		}
		codes := func(n int, f func(i int) byte) []byte {
			b := make([]byte, n)
			for i := range b {
				b[i] = f(i)
			}
			return b
		}
		n := c.Cnt
		v0 := c.Ver == 0
		switch c.Pl {
		case "nodelim":
			list = []byte{}
		case "none":
			if v0 {
				list = bits(n, func(int) bool { return false })
			} else {
				list = codes(n, func(int) byte { return byte(1 + rng.Intn(5)) })
			}
		case "some":
			if v0 {
				list = bits(n, func(i int) bool { return i == 0 })
			} else {
				list = codes(n, func(i int) byte {
					if i == 0 {
						return 0
					}
					return 2
				})
			}
		case "all":
			if v0 {
				list = bits(n, func(int) bool { return true })
			} else {
				list = codes(n, func(int) byte { return 0 })
			}
		case "short":
			if v0 {
				list = bits(n-1, func(int) bool { return false })
			} else {
				list = codes(n-1, func(int) byte { return 1 })
			}
		case "long":
			if v0 {
				list = bits(n+1, func(i int) bool { return i == n })
			} else {
				list = codes(n+1, func(i int) byte {
					if i == n {
						return 0
					}
					return 1
				})
			}
		case "lim":
			if v0 {
				list = bits(64, func(i int) bool { return i%7 == 0 })
			} else {
				list = codes(64, func(i int) byte { return byte(i % 3) })
			}
		case "limp1":
			if v0 {
				list = bits(65, func(i int) bool { return i == 64 })
			} else {
				list = codes(65, func(i int) byte { return 0 })
			}
		case "unkcode":
			if v0 {
				list = cat(bits(n, func(int) bool { return true }), []byte{0}) // trailing zero byte: no delimiter in the last byte
			} else {
				list = codes(n, func(i int) byte { return byte(7 + rng.Intn(249)) })
			}
		}
		b := cat(filler(rng, 2), u32le(6), list)
		offClass(b, 2, c.Off, -1)
		in.msg = cat([]byte{portalwire.ACCEPT}, resize(rng, b, c.N))
	}
	return
}

func (x *runner) offerRequest(rng *rand.Rand, c *kase, keys [][]byte) *portalwire.OfferRequest {
	switch c.Sub {
	case "persist":
		return &portalwire.OfferRequest{Kind: portalwire.PersistOfferRequestKind, Request: &portalwire.PersistOfferRequest{ContentKeys: keys}}
	case "result":
		k := wellFormedKey(rng, "history", 0)
		if len(keys) > 0 {
			k = keys[0]
		}
		return &portalwire.OfferRequest{Kind: portalwire.TransientOfferRequestWithResultKind, Request: &portalwire.TransientOfferRequestWithResult{
			Content: &portalwire.ContentEntry{ContentKey: k, Content: filler(rng, 40)}, Result: make(chan *portalwire.OfferTrace, 1)}}
	}
	var ents []*portalwire.ContentEntry
	for _, k := range keys {
		ents = append(ents, &portalwire.ContentEntry{ContentKey: k, Content: filler(rng, 40)})
	}
	return &portalwire.OfferRequest{Kind: portalwire.TransientOfferRequestKind, Request: &portalwire.TransientOfferRequest{Contents: ents}}
}

// ---- evaluation ------------------------------------------------------------------------------------------------

func (x *runner) rngFor(i, fill int) *rand.Rand {
	return rand.New(rand.NewSource(x.seed*1_000_003 + int64(i)*131 + int64(fill)*7919))
}

// eval executes one concretisation of a case. from > 0 selects the sender (sequences).
// followUp arms the scripted peer's answer to the record request (FINDNODES [0]) that a PING / PONG with a high enr_seq
// triggers inside the node, and returns a function that waits until that nested exchange is over.
func (x *runner) followUp(rng *rand.Rand, c *kase, netName string, p *peer) (wait func()) {
	if c.Fu == "" || c.Fu == "na" {
		return func() {}
	}
	own, _ := enrBytes(p.Self())
	nodes := func(items ...[]byte) []byte {
		b, _ := (&portalwire.Nodes{Total: 1, Enrs: items}).MarshalSSZ()
		return append([]byte{portalwire.NODES}, b...)
	}
	var reply []byte
	armed := true
	switch c.Fu {
	case "honest":
		armed = false
	case "none":
		reply = []byte{}
	case "bare":
		reply = []byte{portalwire.NODES}
	case "garbage":
		reply = cat([]byte{portalwire.NODES}, filler(rng, 5+rng.Intn(60)))
	case "emptylist":
		reply = nodes()
	case "wrongcode":
		reply = validPong(p.Self().Seq())
	case "badrecord":
		other, _ := enrBytes(x.w.peers[(indexOfPeer(x.w, p)+1)%len(x.w.peers)].Self())
		reply = nodes(other)
	case "trunc":
		full := nodes(own)
		reply = full[:len(full)-1-rng.Intn(8)]
	case "silent":
		reply = []byte("\x00silent")
	}
	p.mu.Lock()
	before := p.seen
	p.mu.Unlock()
	key := fmt.Sprintf("%s/%d", netName, portalwire.FINDNODES)
	if armed {
		p.setScript(netName, portalwire.FINDNODES, reply)
	}
	return func() {
		// the nested request is sent from the handling call (PONG) or from the goroutine it starts (PING): wait until the
		// peer has seen it and give the node time to work on the answer; then disarm whatever was not used
		deadline := time.Now().Add(400 * time.Millisecond)
		for time.Now().Before(deadline) {
			p.mu.Lock()
			_, pending := p.script[key]
			seen := p.seen
			p.mu.Unlock()
			if (armed && !pending) || (!armed && seen > before+1) {
				break
			}
			time.Sleep(2 * time.Millisecond)
		}
		if c.Fu == "silent" {
			time.Sleep(900 * time.Millisecond) // the node's request runs into its timeout
		} else {
			time.Sleep(15 * time.Millisecond)
		}
		p.mu.Lock()
		delete(p.script, key)
		p.mu.Unlock()
	}
}

func indexOfPeer(w *world, p *peer) int {
	for i, q := range w.peers {
		if q == p {
			return i
		}
	}
	return 0
}

func (x *runner) eval(c *kase, i, fill, from int) {
	rng := x.rngFor(i, fill)
	mode := "direct"
	if x.live {
		mode = "e2e"
	}
	alt := fill
	if from > 0 {
		alt = from - 1
	}
	p := x.w.peerFor(c.Ver, alt)
	n := x.w.nets[c.Net]
	x.begin(fmt.Sprintf("%d/%d", i, fill))
	switch c.Ch {
	case "req":
		msg, key, vec, offs := x.buildReq(rng, c, fill)
		mut := "none"
		if fill%3 == 2 && c.Exp == "reply" {
			msg, mut = mutate(rng, msg, offs)
		}
		pre := x.pre(rng, c, key, vec)
		keys, dec := seenKeys(msg)
		fsel, fkn := c.Ksel, len(key)
		if len(keys) > 0 { // what the handler is handed after decoding (mutated variants included): the shaped key is the last one
			fsel, fkn = selOf(keys[len(keys)-1]), len(keys[len(keys)-1])
		}
		f := x.facts(c, len(msg), minLen(keys), fsel, fkn, dec)
		x.announce(i, fill, f, mut, pre, digest([]byte(c.Ch+c.Net), msg), hexHead(msg), len(msg))
		var o outcome
		waitFollow := func() {}
		if mut == "none" {
			waitFollow = x.followUp(rng, c, c.Net, p)
		}
		if x.live {
			o = x.deliver(p, string(protoOf[c.Net]), msg)
		} else {
			o = guard(func() callResult {
				return callResult{talk: true, reply: portalwire.VerifHandleTalkRequest(n.P, p.Self(), p.udpAddr(), msg)}
			})
		}
		waitFollow()
		if (c.St == "capsnobase" || c.St == "capsempty") && mut == "none" && o.Out != "panic" {
			// the node's own ping to this peer, with whatever the capabilities just cached make it choose
			time.Sleep(5 * time.Millisecond)
			o2 := guard(func() callResult {
				_, _, err := portalwire.VerifPing(n.P, p.Self())
				return callResult{err: err}
			})
			if o2.Out == "panic" || o2.Out == "wedge" {
				o = o2
			}
		}
		rq := -1
		if len(msg) > 0 {
			rq = int(msg[0])
		}
		x.record(c, i, fill, mode, mut, pre, f, o, rq, p.ver, digest([]byte(c.Ch+c.Net), msg), hexHead(msg), len(msg), map[string]any{"from": p.name})
		if x.live && x.w.noip != nil && mut == "none" && ((c.Kind == "findcontent" && c.St == "stored") || (c.Kind == "offer" && c.Kc == "exact" && c.Exp == "reply")) {
			// the same request from a sender without an address in its record (a stored item is answered over uTP when it is large,
			// an acceptable offer opens a uTP connection towards the sender: G1/05-C01)
			msg2 := msg
			if c.Kind == "offer" && len(msg) > 8 { // another key (last byte changed): the first sender's offer left this one "being received"
				msg2 = append([]byte{}, msg...)
				msg2[len(msg2)-1] ^= 0x5a
			}
			o2 := x.deliver(x.w.noip, string(protoOf[c.Net]), msg2)
			x.record(c, i, fill, mode, mut, pre, f, o2, rq, x.w.noip.ver, digest([]byte(c.Ch+c.Net+"noip"), msg), hexHead(msg), len(msg), map[string]any{"from": "noip"})
		}
		if x.live {
			x.probe(c, i, fill, p)
		}
	case "utp":
		connID := uint16(rng.Intn(60000))
		awaited := false
		if c.St == "awaited" {
			if id, ok := x.awaitConn(rng, p); ok {
				connID, awaited = id, true
			}
		}
		pkt := utpPacket(rng, c, connID)
		x.announce(i, fill, x.facts(c, len(pkt), -1, -1, -1, false), "none", fmt.Sprint("awaited:", awaited), digest([]byte("utp"), pkt), hexHead(pkt), len(pkt))
		o := x.deliver(p, string(portalwire.Utp), pkt)
		if x.w.noip != nil && fill == 0 { // and from a sender without an address in its record (G1/06-C01)
			x.deliver(x.w.noip, string(portalwire.Utp), pkt)
		}
		time.Sleep(2 * time.Millisecond) // the uTP socket works on the packet on its own goroutines
		f := x.facts(c, len(pkt), -1, -1, -1, false)
		x.record(c, i, fill, "net", "none", fmt.Sprint("awaited:", awaited), f, o, -1, p.ver, digest([]byte("utp"), pkt), hexHead(pkt), len(pkt), map[string]any{"from": p.name})
		if x.live {
			x.probe(c, i, fill, p)
		}
	case "resp":
		net := c.Net
		if net == "na" {
			net = "history"
		}
		n = x.w.nets[net]
		in := x.buildResp(rng, c, fill, p)
		mut := "none"
		if fill%3 == 2 && c.Sub != "none" && c.Sub != "code" && c.N < 0 && !in.slow {
			in.msg, mut = mutate(rng, in.msg, nil)
		}
		f := x.facts(c, len(in.msg), -1, -1, -1, false)
		x.announce(i, fill, f, mut, "none", digest([]byte("resp"+c.Kind), in.msg), hexHead(in.msg), len(in.msg))
		call := func() callResult {
			switch c.Kind {
			case "pong":
				_, _, err := portalwire.VerifProcessPong(n.P, p.Self(), in.msg)
				return callResult{err: err}
			case "nodes":
				_, err := portalwire.VerifProcessNodes(n.P, p.Self(), in.msg, in.dists)
				return callResult{err: err}
			case "content":
				_, _, err := portalwire.VerifProcessContent(n.P, p.Self(), in.msg)
				return callResult{err: err}
			default:
				_, err := portalwire.VerifProcessOffer(n.P, p.Self(), in.msg, x.offerRequest(rng, c, in.keys), &portalwire.NoPermit{})
				return callResult{err: err}
			}
		}
		if x.live {
			// end to end: the node sends its own request to the scripted peer, which answers with the case's bytes
			code := map[string]byte{"pong": portalwire.PING, "nodes": portalwire.FINDNODES, "content": portalwire.FINDCONTENT, "accept": portalwire.OFFER}[c.Kind]
			msg := in.msg
			call = func() callResult {
				p.setScript(net, code, msg)
				switch c.Kind {
				case "pong":
					_, _, err := portalwire.VerifPing(n.P, p.Self())
					return callResult{err: err}
				case "nodes":
					_, err := portalwire.VerifFindNodes(n.P, p.Self(), in.dists)
					return callResult{err: err}
				case "content":
					_, _, err := portalwire.VerifFindContent(n.P, p.Self(), wellFormedKey(rng, "history", 0))
					return callResult{err: err}
				default:
					_, err := portalwire.VerifOffer(n.P, p.Self(), x.offerRequest(rng, c, in.keys), &portalwire.NoPermit{})
					return callResult{err: err}
				}
			}
		}
		rec := func(o outcome) {
			x.record(c, i, fill, mode, mut, "none", f, o, -1, p.ver, digest([]byte("resp"+c.Kind), in.msg), hexHead(in.msg), len(in.msg), map[string]any{"from": p.name})
		}
		if c.Kind == "pong" && mut == "none" && c.Fu != "" && c.Fu != "na" {
			inner := call
			call = func() callResult {
				wait := x.followUp(rng, c, net, p)
				r := inner()
				wait()
				return r
			}
		}
		if in.slow {
			// a well-formed connection id: the code dials uTP and waits for its own connect timeout - run beside the rest
			ch := make(chan outcome, 1)
			go func() { ch <- guard(call) }()
			x.bg = append(x.bg, func() { rec(<-ch) })
			return
		}
		rec(guard(call))
	case "stream":
		x.evalStream(rng, c, i, fill, p, mode)
	case "val", "pipe", "put", "get":
		key, vec := x.shapedKey(rng, c, fill)
		var content []byte
		if c.Ch != "get" {
			content = x.contentFor(rng, c, fill, vec)
			if (c.Cc == "fldbnd" || c.Cc == "fldfar") && c.Kc == "exact" {
				key, content = x.fieldCase(rng, c, key, content)
			}
			if c.Cc == "pathcut" && c.Kc == "exact" && c.Net == "state" {
				key = pathCut(rng, c, key)
			}
		}
		pre := x.pre(rng, c, key, vec)
		f := x.facts(c, -1, len(key), selOf(key), len(key), false)
		f["zl"] = zeroLenItem(content)
		x.announce(i, fill, f, "none", pre, digest([]byte(c.Ch+c.Net), key, content), hexHead(key)+"|"+hexHead(content), len(key)+len(content))
		o := guard(func() callResult {
			switch c.Ch {
			case "val":
				return callResult{err: n.Val.ValidateContent(key, content)}
			case "pipe":
				return callResult{err: n.validateContents([][]byte{key}, [][]byte{content})}
			case "put":
				return callResult{err: n.Store.Put(key, n.P.ToContentId(key), content)}
			default:
				_, err := n.Store.Get(key, n.P.ToContentId(key))
				return callResult{err: err}
			}
		})
		x.record(c, i, fill, "direct", "none", pre, f, o, -1, -1, digest([]byte(c.Ch+c.Net), key, content), hexHead(key)+"|"+hexHead(content), len(key)+len(content), nil)
	case "lookup":
		x.evalLookup(rng, c, i, fill)
	}
}

func (x *runner) evalStream(rng *rand.Rand, c *kase, i, fill int, p *peer, mode string) {
	n := x.w.nets[c.Net]
	if c.Kind == "fc" {
		item := filler(rng, 10+rng.Intn(2000))
		data := item
		if c.Ver == 1 || c.Pl != "exact" {
			data = frame(rng, [][]byte{item}, c.Pl, 1)
		}
		f := x.facts(c, len(data), -1, -1, -1, false)
		o := guard(func() callResult {
			_, err := portalwire.VerifDecodeUtpContent(n.P, p.Self(), data)
			return callResult{err: err}
		})
		x.record(c, i, fill, "direct", "none", "none", f, o, -1, p.ver, digest([]byte("fc"), data), hexHead(data), len(data), map[string]any{"from": p.name})
		return
	}
	// offer: cnt genuine keys of the network and one item per key
	var keys, items [][]byte
	sels := []int{}
	for s := range x.vs.bySel[c.Net] {
		sels = append(sels, s)
	}
	sortInts(sels)
	listSel := map[string]int{"beacon": 17, "history": 2}
	for k := 0; k < c.Cnt; k++ {
		sel := sels[(k+fill+i)%len(sels)]
		if ls, ok := listSel[c.Net]; ok && c.Cc == "zeroitem" {
			sel = ls // the selector whose content is an SSZ list of variable-size items
		}
		v, _ := x.vs.get(c.Net, sel, fill+k+i)
		keys = append(keys, v.key)
		kk := *c
		kk.Ksel, kk.Kc = selOf(v.key), "exact"
		items = append(items, x.contentFor(rng, &kk, fill, &v))
	}
	data := frame(rng, items, c.Pl, c.Cnt)
	f := x.facts(c, len(data), minLen(keys), selOf(keys[0]), len(keys[0]), false)
	for _, it := range items {
		if zeroLenItem(it) && c.Pl == "exact" {
			f["zl"] = true
		}
	}
	x.announce(i, fill, f, "none", "none", digest([]byte("stream"+c.Net), data), hexHead(data), len(data))
	if x.live {
		o := x.offerStream(rng, c, p, keys, data)
		x.record(c, i, fill, "e2e", "none", "none", f, o, -1, p.ver, digest([]byte("stream"+c.Net), data), hexHead(data), len(data), map[string]any{"from": "attacker"})
		x.probe(c, i, fill, p)
		return
	}
	// every third well-framed stream finds the validation queue FULL: the handling call must still return (the items are dropped),
	// not wait for the content loop (sweep mutant G1/16-C01 turned the hand-over into a blocking send)
	fullq := c.Pl == "exact" && fill%3 == 1
	if fullq {
		for len(n.Queue) < cap(n.Queue) {
			n.Queue <- &portalwire.ContentElement{}
		}
	}
	o := guard(func() callResult {
		return callResult{err: portalwire.VerifHandleOfferedContents(n.P, p.Self().ID(), keys, data)}
	})
	if fullq {
		for len(n.Queue) > 0 {
			<-n.Queue
		}
	}
	x.record(c, i, fill, "direct", "none", fmt.Sprint("queuefull:", fullq), f, o, -1, p.ver, digest([]byte("stream"+c.Net), data), hexHead(data), len(data), map[string]any{"from": p.name})
	// what the content loop would now do with the queued element
	for {
		select {
		case el := <-n.Queue:
			pc := *c
			pc.Ch, pc.Kind, pc.Kc, pc.Ksel, pc.Kn, pc.Exp = "pipe", "na", "exact", selOf(el.ContentKeys[0]), len(el.ContentKeys[0]), "any"
			pf := x.facts(&pc, -1, minLen(el.ContentKeys), pc.Ksel, pc.Kn, false)
			for _, ct := range el.Contents {
				if zeroLenItem(ct) {
					pf["zl"] = true
				}
			}
			x.announce(i, fill, pf, "none", "from-stream", "pipe-from-stream", hexHead(el.ContentKeys[0]), len(data))
			po := guard(func() callResult { return callResult{err: n.validateContents(el.ContentKeys, el.Contents)} })
			x.record(&pc, i, fill, "direct", "none", "from-stream", pf, po, -1, -1, digest([]byte("pipe"+c.Net), bytes.Join(el.ContentKeys, nil), bytes.Join(el.Contents, nil)),
				hexHead(el.ContentKeys[0]), len(data), map[string]any{"items": len(el.Contents)})
		default:
			return
		}
	}
}

func sortInts(a []int) {
	for i := 1; i < len(a); i++ {
		for j := i; j > 0 && a[j] < a[j-1]; j-- {
			a[j], a[j-1] = a[j-1], a[j]
		}
	}
}

func (x *runner) evalLookup(rng *rand.Rand, c *kase, i, fill int) {
	proto := c.Net
	n := x.w.nets[proto]
	var key []byte
	var content []byte
	kk := *c
	var call func() error
	switch c.Net {
	case "history":
		sel := map[string]int{"header": 0, "body": 1, "receipts": 2}[c.Kind]
		kk.Ksel, kk.Kc = sel, "exact"
		// a block whose item is not in the local store: the getters ask the network
		var vec vector
		for t := 0; t < 12; t++ {
			v, ok := x.vs.get("history", sel, fill/2+t)
			if !ok {
				break
			}
			if _, err := n.Store.Get(v.key, n.P.ToContentId(v.key)); err != nil && (vec.key == nil || (len(vec.content) > 1100 && len(v.content) <= 1100)) {
				vec = v
			}
		}
		if vec.key == nil {
			vec = vector{key: cat([]byte{byte(sel)}, filler(rng, 32)), content: filler(rng, 300)}
		}
		key = vec.key
		content = x.contentFor(rng, &kk, fill, &vec)
		hash := key[1:]
		call = func() error {
			var err error
			switch sel {
			case 0:
				_, err = n.H.GetBlockHeader(hash)
			case 1:
				_, err = n.H.GetBlockBody(hash)
			default:
				_, err = n.H.GetReceipts(hash)
			}
			return err
		}
	case "beacon":
		what := c.Kind[len(c.Kind)-len("bootstrap"):]
		sel := 16
		switch {
		case hasSuffix(c.Kind, "updates"):
			sel, what = 17, "updates"
		case hasSuffix(c.Kind, "finality"):
			sel, what = 18, "finality"
		case hasSuffix(c.Kind, "optimistic"):
			sel, what = 19, "optimistic"
		default:
			what = "bootstrap"
		}
		kk.Ksel, kk.Kc = sel, "exact"
		vec, _ := x.vs.get("beacon", sel, 0)
		content = x.contentFor(rng, &kk, fill, &vec)
		key = []byte{byte(sel)}
		var root tree.Root
		rng.Read(root[:])
		period := uint64(5000 + rng.Intn(100000))
		api := c.Kind[:3] == "api"
		call = func() error {
			var err error
			switch what {
			case "bootstrap":
				if api {
					_, err = x.w.lightAPI.GetBootstrap(root)
				} else {
					_, err = n.B.GetCheckpointData(root)
				}
			case "updates":
				if api {
					_, err = x.w.lightAPI.GetUpdates(period, 1)
				} else {
					_, err = n.B.GetUpdates(period, 1)
				}
			case "finality":
				if api {
					_, err = x.w.lightAPI.GetFinalityUpdate()
				} else {
					_, err = n.B.GetFinalityUpdate(uint64(1 << 40))
				}
			default:
				if api {
					_, err = x.w.lightAPI.GetOptimisticUpdate()
				} else {
					_, err = n.B.GetOptimisticUpdate(uint64(1 << 40))
				}
			}
			return err
		}
	}
	// what fits into one TALKRESP
	served := content
	if len(served) > 1100 {
		served = served[:1100]
	}
	for _, p := range x.w.peers {
		p.setLookup(proto, served)
	}
	f := x.facts(c, len(served), len(key), selOf(key), len(key), false)
	x.announce(i, fill, f, "none", "none", digest([]byte("lookup"+c.Net+c.Kind), served), hexHead(served), len(served))
	o := guard(func() callResult { return callResult{err: call()} })
	for _, p := range x.w.peers {
		p.setLookup(proto, nil)
	}
	x.record(c, i, fill, "net", "none", "none", f, o, -1, -1, digest([]byte("lookup"+c.Net+c.Kind), served), hexHead(served), len(served), nil)
}

func hasSuffix(s, suf string) bool { return len(s) >= len(suf) && s[len(s)-len(suf):] == suf }

// ---- over the switch ---------------------------------------------------------------------------------------------

// deliver sends a TALKREQ from a scripted peer's discv5 endpoint to the node under test.
func (x *runner) deliver(p *peer, proto string, msg []byte) outcome {
	type r struct {
		b   []byte
		err error
	}
	ch := make(chan r, 1)
	go func() {
		b, err := p.D5.TalkRequest(x.w.ln.Node(), proto, msg)
		ch <- r{b, err}
	}()
	select {
	case v := <-ch:
		if v.err != nil {
			return outcome{Out: "noresp", Err: v.err.Error()}
		}
		if len(v.b) > 0 {
			return outcome{Out: "reply", Reply: v.b}
		}
		return outcome{Out: "empty"}
	case <-time.After(5 * time.Second):
		return outcome{Out: "noresp", Err: "no TALKRESP within 5 s"}
	}
}

// probe: is the node still answering? (a well-formed PING on the history protocol)
func (x *runner) probe(c *kase, i, fill int, p *peer) {
	pc := kase{Ch: "req", Net: "history", Kind: "ping", Code: 0, N: -1, Off: "exact", Sv: 0, Pl: "valid", Pn: -1}
	rng := x.rngFor(i, fill+1000)
	msg := cat([]byte{portalwire.PING}, pingBody(rng, &pc))
	alive := false
	for t := 0; t < 3 && !alive; t++ {
		o := x.deliver(p, string(portalwire.History), msg)
		alive = o.Out == "reply"
	}
	x.emit(map[string]any{"ev": "probe", "i": i, "fill": fill, "alive": alive})
}

// awaitConn makes the node wait for a uTP connection from p: a version-appropriate OFFER of a fresh key is accepted with a connection id.
func (x *runner) awaitConn(rng *rand.Rand, p *peer) (uint16, bool) {
	// one awaited connection serves several packets (the node has 50 inbound transfer slots, each held for its 15 s connect
	// timeout): later packets meet the connection in whatever state the earlier ones left it
	if a := x.aw[p.name]; a != nil && a.used < 8 && time.Since(a.at) < 8*time.Second {
		a.used++
		return a.id, true
	}
	id, ok := x.awaitNew(rng, p)
	if ok {
		if x.aw == nil {
			x.aw = map[string]*awaited{}
		}
		x.aw[p.name] = &awaited{id: id, at: time.Now(), used: 1}
	}
	return id, ok
}

type awaited struct {
	id   uint16
	at   time.Time
	used int
}

func (x *runner) awaitNew(rng *rand.Rand, p *peer) (uint16, bool) {
	key := wellFormedKey(rng, "history", 1)
	msg := cat([]byte{portalwire.OFFER}, u32le(4), sszList([][]byte{key}))
	o := x.deliver(p, string(portalwire.History), msg)
	if o.Out != "reply" || len(o.Reply) < 3 || o.Reply[0] != portalwire.ACCEPT {
		return 0, false
	}
	id := uint16(o.Reply[1])<<8 | uint16(o.Reply[2])
	return id, id != 0
}

// offerStream (e2e): the attacker - a second real node, for its uTP stack - offers the keys with a raw TALKREQ and writes the
// case's stream body on the accepted connection.
func (x *runner) offerStream(rng *rand.Rand, c *kase, p *peer, keys [][]byte, data []byte) outcome {
	att := x.w.attacker
	if att == nil {
		return outcome{Out: "skip", Err: "no attacker node"}
	}
	msg := cat([]byte{portalwire.OFFER}, u32le(4), sszList(keys))
	b, err := att.D5.TalkRequest(x.w.ln.Node(), string(protoOf[c.Net]), msg)
	if err != nil || len(b) < 3 || b[0] != portalwire.ACCEPT {
		return outcome{Out: "noresp", Err: fmt.Sprint("offer not accepted: ", err, " ", hexHead(b))}
	}
	id := uint16(b[1])<<8 | uint16(b[2])
	if id == 0 {
		return outcome{Out: "noresp", Err: "offer declined: " + hexHead(b)}
	}
	ctx, cancel := context.WithTimeout(context.Background(), 10*time.Second)
	defer cancel()
	conn, err := att.P.Utp.DialWithCid(ctx, x.w.ln.Node(), id)
	if err != nil {
		return outcome{Out: "noresp", Err: "utp dial: " + err.Error()}
	}
	_, err = conn.Write(ctx, data)
	conn.Close()
	if err != nil {
		return outcome{Out: "noresp", Err: "utp write: " + err.Error()}
	}
	time.Sleep(150 * time.Millisecond) // the receiver hands the stream to its content loop
	return outcome{Out: "empty"}
}

var _ = htypes.MergeBlockNumber
