// Package wire is the engine of C01 (no remote input can crash or wedge the node): it concretises the shape cases of
// spec/Wire.tla into byte strings and hands them to the real handlers of a fully configured node - directly through the
// verif wrappers under recover() with a watchdog, and over the in-memory discv5 switch from a raw attacker peer.
//
// All handling runs in CHILD processes (re-exec of this binary): handlers start goroutines of their own, and a panic in a
// goroutine nobody recovers kills the process - the parent observes that (exit status, crash dump on stderr, the call that
// was in progress) instead of suffering it, records it and restarts the child behind the culprit.
package wire

import (
	"bufio"
	"bytes"
	"context"
	"encoding/json"
	"flag"
	"fmt"
	"math/rand"
	"os"
	"os/exec"
	"sort"
	"strings"
	"sync"
	"time"

	"github.com/ethereum/go-ethereum/log"

	"verifharness/common"
)

func init() { common.Register("wire", Main) }

type job struct {
	I    int     `json:"i"`    // case index (line of the case file) or sequence index
	Fill int     `json:"fill"` // concretisation number
	C    *kase   `json:"c,omitempty"`
	Seq  []seqIn `json:"seq,omitempty"`
}

type seqIn struct {
	From   int   `json:"from"`
	In     *kase `json:"in"`
	SumLen int   `json:"sumlen"`
}

func readLines(path string, f func(line []byte) error) error {
	if path == "" {
		return nil
	}
	fh, err := os.Open(path)
	if err != nil {
		return err
	}
	defer fh.Close()
	sc := bufio.NewScanner(fh)
	sc.Buffer(make([]byte, 1<<20), 1<<28)
	for sc.Scan() {
		if len(bytes.TrimSpace(sc.Bytes())) == 0 {
			continue
		}
		if err := f(sc.Bytes()); err != nil {
			return err
		}
	}
	return sc.Err()
}

func Main(args []string) error {
	fs := flag.NewFlagSet("wire", flag.ContinueOnError)
	cases := fs.String("cases", "", "TLC cases (ndjson)")
	seqs := fs.String("seqs", "", "TLC sequences (ndjson), each a list of {from, in}")
	out := fs.String("out", "trace.ndjson", "trace output")
	seed := fs.Int64("seed", 1, "seed")
	fills := fs.Int("fills", 2, "concretisations per shape (direct)")
	workers := fs.Int("workers", 8, "child processes")
	e2e := fs.Int("e2e", 1, "concretisations per deliverable shape sent over the switch (0 = none)")
	e2eStreams := fs.Int("e2e-streams", 12, "stream cases pushed through a real uTP transfer")
	only := fs.String("only", "", "replay: comma separated list of i/fill[/mode] to execute")
	wd := fs.Duration("watchdog", 20*time.Second, "watchdog")
	gr := fs.Duration("grace", 10*time.Second, "second look after the watchdog fired")
	repo := fs.String("repo", os.Getenv("VERIF_REPO"), "repository (test vectors)")
	// child
	child := fs.String("child", "", "internal: job file of this child")
	live := fs.Bool("live", false, "internal: child runs the networks' own loops, inputs go over the switch")
	startAt := fs.Int("start", 0, "internal: first job position")
	if err := fs.Parse(args); err != nil {
		return err
	}
	watchdog, grace = *wd, *gr
	if *repo == "" {
		*repo = "/repo"
	}
	if *child != "" {
		return childMain(*child, *out, *seed, *live, *startAt, *repo)
	}

	// ---- parent
	var direct, net, seqJobs []job
	onlySet := map[string]bool{}
	for _, s := range strings.Split(*only, ",") {
		if s != "" {
			onlySet[s] = true
		}
	}
	want := func(i, fill int, mode string) bool {
		if len(onlySet) == 0 {
			return true
		}
		return onlySet[fmt.Sprintf("%d/%d", i, fill)] || onlySet[fmt.Sprintf("%d/%d/%s", i, fill, mode)] || (mode == "direct" && onlySet[fmt.Sprintf("%d/%d/net", i, fill)])
	}
	idx := 0
	nstream := 0
	err := readLines(*cases, func(line []byte) error {
		c := &kase{}
		if err := json.Unmarshal(line, c); err != nil {
			return err
		}
		i := idx
		idx++
		nf := *fills
		if c.Cc == "offdecr" || c.Cc == "offshift" || c.Cc == "pathcut" || c.Cc == "fldbnd" || c.Cc == "fldfar" {
			nf *= 4 // structured mutations: which offset / which depth / which boundary is drawn per concretisation
		}
		for f := 0; f < nf; f++ {
			if c.Ch == "utp" {
				continue // over the switch only (below)
			}
			if c.Ch == "resp" && c.Sub == "connid" && c.N == 2 && f >= 2 {
				continue // each waits for the code's 15 s connect timeout
			}
			if want(i, f, "direct") {
				direct = append(direct, job{I: i, Fill: f, C: c})
			}
		}
		for f := 0; f < *e2e; f++ {
			deliverable := c.Ch == "utp" || (c.Ch == "req" && c.N < 1150 && c.Kn < 1150 && c.Pn < 1101 && c.Cnt < 60) ||
				(c.Ch == "resp" && c.N < 1150 && c.Pn < 1101 && c.Cnt <= 8 && !(c.Sub == "connid" && c.N == 2) && c.Pl != "some" && c.Pl != "all" && c.Pl != "long" && c.Pl != "lim")
			if c.Ch == "stream" && c.Kind == "offer" && f == 0 && c.Cc == "zeroitem" && c.Pl == "exact" && c.Cnt == 2 {
				deliverable = true // the shape of the listed finding F-C01-9, end to end
			}
			if c.Ch == "stream" && c.Kind == "offer" && f == 0 && c.Pl != "big" && c.Cc != "zeroitem" && (i*7+int(*seed))%5 == 0 && nstream < *e2eStreams {
				deliverable = true
				nstream++
			}
			if deliverable && want(i, f, "e2e") {
				net = append(net, job{I: i, Fill: f, C: c})
			}
		}
		return nil
	})
	if err != nil {
		return err
	}
	sidx := 0
	err = readLines(*seqs, func(line []byte) error {
		var s []seqIn
		if err := json.Unmarshal(line, &s); err != nil {
			return err
		}
		if want(sidx, 0, "seq") {
			seqJobs = append(seqJobs, job{I: sidx, Seq: s})
		}
		sidx++
		return nil
	})
	if err != nil {
		return err
	}

	// split: direct jobs round-robin over the workers; e2e jobs over two children, sequences over the rest
	type batch struct {
		name string
		live bool
		jobs []job
	}
	var batches []*batch
	nd := *workers
	if nd < 1 {
		nd = 1
	}
	ds := make([]*batch, nd)
	for k := range ds {
		ds[k] = &batch{name: fmt.Sprintf("d%d", k)}
	}
	for k, j := range direct {
		ds[k%nd].jobs = append(ds[k%nd].jobs, j)
	}
	// the 15 s calls first, so they overlap with the rest
	for _, b := range ds {
		sort.SliceStable(b.jobs, func(a, c int) bool {
			sa := b.jobs[a].C.Ch == "resp" && b.jobs[a].C.Sub == "connid" && b.jobs[a].C.N == 2
			sc := b.jobs[c].C.Ch == "resp" && b.jobs[c].C.Sub == "connid" && b.jobs[c].C.N == 2
			return sa && !sc
		})
		if len(b.jobs) > 0 {
			batches = append(batches, b)
		}
	}
	ne := max(2, nd/3)
	es := make([]*batch, ne)
	for k := range es {
		es[k] = &batch{name: fmt.Sprintf("e%d", k), live: true}
	}
	for k, j := range net {
		es[k%ne].jobs = append(es[k%ne].jobs, j)
	}
	for _, b := range es {
		if len(b.jobs) > 0 {
			batches = append(batches, b)
		}
	}
	nsq := max(1, nd/2)
	ss := make([]*batch, nsq)
	for k := range ss {
		ss[k] = &batch{name: fmt.Sprintf("s%d", k)}
	}
	for k, j := range seqJobs {
		ss[k%nsq].jobs = append(ss[k%nsq].jobs, j)
	}
	for _, b := range ss {
		if len(b.jobs) > 0 {
			batches = append(batches, b)
		}
	}

	type res struct {
		events  []map[string]any
		crashes int
		err     error
	}
	results := make([]res, len(batches))
	sem := make(chan struct{}, nd)
	var wg sync.WaitGroup
	for bi, b := range batches {
		wg.Add(1)
		go func(bi int, b *batch) {
			defer wg.Done()
			sem <- struct{}{}
			defer func() { <-sem }()
			evs, crashes, err := runBatch(b.name, b.live, b.jobs, *out, *seed, *repo)
			results[bi] = res{evs, crashes, err}
		}(bi, b)
	}
	wg.Wait()
	var all []map[string]any
	crashes := 0
	for _, r := range results {
		if r.err != nil {
			return r.err
		}
		all = append(all, r.events...)
		crashes += r.crashes
	}
	order := map[string]int{"direct": 0, "net": 1, "e2e": 2, "seq": 3}
	num := func(v any) int { f, _ := v.(float64); return int(f) }
	sort.SliceStable(all, func(a, b int) bool {
		ma, mb := order[fmt.Sprint(all[a]["mode"])], order[fmt.Sprint(all[b]["mode"])]
		if ma != mb {
			return ma < mb
		}
		if num(all[a]["i"]) != num(all[b]["i"]) {
			return num(all[a]["i"]) < num(all[b]["i"])
		}
		if num(all[a]["fill"]) != num(all[b]["fill"]) {
			return num(all[a]["fill"]) < num(all[b]["fill"])
		}
		return num(all[a]["k"]) < num(all[b]["k"])
	})
	fh, err := os.Create(*out)
	if err != nil {
		return err
	}
	bw := bufio.NewWriterSize(fh, 1<<20)
	stats := map[string]int{}
	for _, ev := range all {
		b, _ := json.Marshal(ev)
		bw.Write(b)
		bw.WriteByte('\n')
		stats[fmt.Sprint(ev["mode"], ":", ev["out"])]++
	}
	if err := bw.Flush(); err != nil {
		return err
	}
	fh.Close()
	sum, _ := json.Marshal(map[string]any{"events": len(all), "child_crashes": crashes, "direct_jobs": len(direct), "net_jobs": len(net), "seq_jobs": len(seqJobs), "by_outcome": stats})
	os.WriteFile(*out+".sum.json", sum, 0o644)
	fmt.Printf("wire: %d events, %d child crashes, %d direct / %d over-the-switch / %d sequence jobs\n", len(all), crashes, len(direct), len(net), len(seqJobs))
	return nil
}

// runBatch runs the jobs in a child; when the child dies the call in progress is recorded as a crash and a new child
// continues behind it.
func runBatch(name string, live bool, jobs []job, out string, seed int64, repo string) ([]map[string]any, int, error) {
	jf := fmt.Sprintf("%s.%s.jobs", out, name)
	fh, err := os.Create(jf)
	if err != nil {
		return nil, 0, err
	}
	bw := bufio.NewWriter(fh)
	for _, j := range jobs {
		b, _ := json.Marshal(j)
		bw.Write(b)
		bw.WriteByte('\n')
	}
	bw.Flush()
	fh.Close()
	defer os.Remove(jf)
	var events []map[string]any
	start, crashes := 0, 0
	for round := 0; start < len(jobs); round++ {
		tf := fmt.Sprintf("%s.%s.%d", out, name, round)
		args := []string{"wire", "--child", jf, "--out", tf, "--seed", fmt.Sprint(seed), "--start", fmt.Sprint(start), "--repo", repo,
			"--watchdog", watchdog.String(), "--grace", grace.String()}
		if live {
			args = append(args, "--live")
		}
		ctx, cancel := context.WithTimeout(context.Background(), 40*time.Minute)
		cmd := exec.CommandContext(ctx, os.Args[0], args...)
		var stderr bytes.Buffer
		cmd.Stderr = &stderr
		cmd.Stdout = &stderr
		runErr := cmd.Run()
		timedOut := ctx.Err() != nil
		cancel()
		if timedOut {
			return nil, crashes, fmt.Errorf("wire child %s did not finish within 40 minutes (harness problem, no verdict)", name)
		}
		// read what the child wrote
		pos, open := start-1, ""
		var info map[string]any // what the child announced for the call in progress
		var evs []map[string]any
		readLines(tf, func(line []byte) error {
			var m map[string]any
			if json.Unmarshal(line, &m) != nil {
				return nil // a torn last line
			}
			if b, ok := m["begin"]; ok {
				open = fmt.Sprint(b)
				pos = int(m["pos"].(float64))
				info = nil
				if _, ok := m["f"]; ok {
					info = m
				}
				return nil
			}
			if _, ok := m["end"]; ok {
				open, info = "", nil
				return nil
			}
			evs = append(evs, m)
			return nil
		})
		os.Remove(tf)
		events = append(events, evs...)
		if runErr == nil {
			break
		}
		errText := stderr.String()
		s, isCrash := parseCrash(errText)
		if !isCrash || pos < start {
			if len(errText) > 3000 {
				errText = errText[len(errText)-3000:]
			}
			return nil, crashes, fmt.Errorf("wire child %s failed without a Go crash dump at job %d: %v\n%s", name, pos, runErr, errText)
		}
		crashes++
		j := jobs[pos]
		// the child died during job pos: its process-level outcome
		if len(errText) > 6000 {
			errText = errText[:6000]
		}
		mode := "direct"
		if live {
			mode = "e2e"
		}
		c := j.C
		from := 0
		if j.Seq != nil {
			mode = "seq"
			// which input of the sequence was in progress
			k := 0
			fmt.Sscanf(afterSlash(open), "%d", &k)
			if k >= len(j.Seq) {
				k = len(j.Seq) - 1
			}
			c, from = j.Seq[k].In, j.Seq[k].From
		}
		cm := map[string]any{}
		cb, _ := json.Marshal(c)
		json.Unmarshal(cb, &cm)
		ev := map[string]any{"ev": "eval", "i": j.I, "fill": j.Fill, "mode": mode, "c": cm, "mut": "unknown", "pre": "unknown", "out": "panic", "crash": true,
			"guarded": s.Guarded, "rcode": -1, "rdec": true, "rwhy": "", "site": s.Site, "inner": s.Inner, "cls": s.Cls, "msg": s.Msg, "created": s.Created,
			"err": "", "dig": fmt.Sprintf("crash-%d-%d", j.I, j.Fill), "in": "", "len": -1, "stack": errText, "from": from,
			"f": map[string]any{"ch": c.Ch, "net": c.Net, "kind": c.Kind, "code": c.Code, "sub": c.Sub, "mlen": crashMlen(c), "kmin": crashKmin(c), "ksel": c.Ksel, "kn": c.Kn, "sumlen": crashSum(c), "dec": c.Exp == "reply" || c.Today == "panic",
				"zl": c.Net == "beacon" && ((c.Ksel == 17 && (c.Cc == "emptyvar" || c.Cc == "zeroitem")) || (c.Ch == "stream" && c.Cc == "zeroitem"))}}
		if c.Ch == "stream" && c.Cc == "zeroitem" && c.Net == "beacon" {
			ev["f"].(map[string]any)["ksel"] = 17
		}
		if info != nil { // facts, mutation and input as the child announced them right before the call
			for _, k := range []string{"f", "mut", "pre", "dig", "in", "len"} {
				if v, ok := info[k]; ok {
					ev[k] = v
				}
			}
		}
		events = append(events, ev)
		start = pos + 1
		if crashes > len(jobs)/2+200 {
			return nil, crashes, fmt.Errorf("wire child %s: more than %d crashes, giving up", name, crashes)
		}
	}
	return events, crashes, nil
}

func afterSlash(s string) string {
	if i := strings.LastIndex(s, "#"); i >= 0 {
		return s[i+1:]
	}
	return "0"
}

// facts of a call that killed its process are taken from the shape (the child could not log them)
func crashMlen(c *kase) int {
	switch {
	case c.Kind == "none" || c.Sub == "none":
		return 0
	case c.N >= 0:
		return 1 + c.N
	}
	return 1000000
}
func crashSum(c *kase) int {
	switch c.St {
	case "sum":
		return 1000
	case "sumshort":
		return 3
	}
	return -1
}
func crashKmin(c *kase) int {
	if c.Kc == "na" {
		return -1
	}
	return c.Kn
}

func childMain(jobFile, out string, seed int64, live bool, start int, repo string) error {
	log.SetDefault(log.NewLogger(log.DiscardHandler()))
	vs, err := loadVectors(repo)
	if err != nil {
		return err
	}
	var jobs []job
	if err := readLines(jobFile, func(line []byte) error {
		var j job
		if err := json.Unmarshal(line, &j); err != nil {
			return err
		}
		jobs = append(jobs, j)
		return nil
	}); err != nil {
		return err
	}
	fh, err := os.Create(out)
	if err != nil {
		return err
	}
	var mu sync.Mutex
	k := 0
	pos := start
	write := func(m map[string]any) {
		mu.Lock()
		defer mu.Unlock()
		b, _ := json.Marshal(m)
		fh.Write(append(b, '\n'))
	}
	emit := func(ev map[string]any) {
		mu.Lock()
		k++
		ev["k"] = k
		mu.Unlock()
		write(ev)
	}
	sub := 0
	begin := func(tag string) { write(map[string]any{"begin": fmt.Sprintf("%s#%d", tag, sub), "pos": pos}) }
	beginWith := func(tag string, info map[string]any) {
		m := map[string]any{"begin": fmt.Sprintf("%s#%d", tag, sub), "pos": pos}
		for k, v := range info {
			m[k] = v
		}
		write(m)
	}
	mk := func() (*runner, error) {
		w, err := newWorld(rand.New(rand.NewSource(seed*7+int64(start))), live)
		if err != nil {
			return nil, err
		}
		x := &runner{w: w, vs: vs, seed: seed, live: live, emit: emit, begin: begin, beginWith: beginWith}
		if err := x.seedWorld(); err != nil {
			return nil, err
		}
		return x, nil
	}
	var x *runner
	for ; pos < len(jobs); pos++ {
		j := jobs[pos]
		if j.Seq != nil {
			// every sequence meets a fresh node
			sx, err := mk()
			if err != nil {
				return err
			}
			base := sx.emit
			for si, in := range j.Seq {
				sub = si
				c := *in.In
				c.Exp = "any"
				si, from := si, in.From
				sx.emit = func(ev map[string]any) { ev["mode"], ev["step"], ev["sender"] = "seq", si, from; base(ev) }
				sx.eval(&c, j.I, 0, in.From)
			}
			sub = 0
			sx.collect()
			sx.w.close()
			write(map[string]any{"end": pos})
			continue
		}
		if x == nil {
			if x, err = mk(); err != nil {
				return err
			}
		}
		x.eval(j.C, j.I, j.Fill, 0)
		write(map[string]any{"end": pos})
	}
	if x != nil {
		pos = len(jobs) - 1
		x.collect()
	}
	fh.Close()
	os.Exit(0) // do not wait for the node's lingering transfer goroutines
	return nil
}

// collect waits for the calls that were left running beside the others.
func (x *runner) collect() {
	for _, f := range x.bg {
		f()
	}
	x.bg = nil
}
