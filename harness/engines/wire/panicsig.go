package wire

// Panic attribution: (innermost shisui frame function, runtime error class), independent of line numbers.

import (
	"regexp"
	"strings"
)

type sig struct {
	Site    string // innermost frame in zen-eth/shisui (or zen-eth/utp-go), package-relative: "history.isEphemeralOfferType"
	Inner   string // innermost non-runtime frame at all (a dependency when the fault is below shisui code)
	Cls     string // runtime error class
	Msg     string
	Created string // "created by" function of the panicking goroutine (fatal panics only)
	Guarded bool   // the harness's guard frame is on the panicking stack (the fault belongs to the call in progress)
}

var (
	reCreated = regexp.MustCompile(`(?m)^created by ([^\s]+)`)
)

func shortFn(f string) string {
	for _, p := range []string{"github.com/zen-eth/shisui/", "github.com/zen-eth/"} {
		if strings.HasPrefix(f, p) {
			return strings.TrimPrefix(f, p)
		}
	}
	return f
}

// stripClosure maps "pkg.(*T).method.func1.2" to "pkg.(*T).method".
func stripClosure(f string) string {
	for {
		i := strings.LastIndex(f, ".")
		if i < 0 {
			return f
		}
		tail := f[i+1:]
		if strings.HasPrefix(tail, "func") || isDigits(tail) || strings.HasPrefix(tail, "gowrap") {
			f = f[:i]
			continue
		}
		return f
	}
}

func isDigits(s string) bool {
	if s == "" {
		return false
	}
	for _, c := range s {
		if c < '0' || c > '9' {
			return false
		}
	}
	return true
}

// errClass reduces a panic message to a class.
func errClass(msg string) string {
	m := strings.TrimPrefix(msg, "panic: ")
	switch {
	case strings.Contains(m, "index out of range [-"):
		return "index out of range (negative)"
	case strings.Contains(m, "index out of range"):
		return "index out of range"
	case strings.Contains(m, "slice bounds out of range"):
		return "slice bounds out of range"
	case strings.Contains(m, "nil pointer dereference"):
		return "nil pointer dereference"
	case strings.Contains(m, "interface conversion"):
		return "interface conversion"
	case strings.Contains(m, "divide by zero"):
		return "integer divide by zero"
	case strings.Contains(m, "makeslice"), strings.Contains(m, "out of memory"), strings.Contains(m, "cannot allocate"):
		return "allocation"
	case strings.Contains(m, "cannot convert slice with length"):
		return "slice to array conversion"
	case strings.Contains(m, "send on closed channel"), strings.Contains(m, "close of closed channel"), strings.Contains(m, "close of nil channel"):
		return "closed channel"
	case strings.Contains(m, "stack overflow"), strings.Contains(m, "stack exceeds"):
		return "stack overflow"
	case strings.Contains(m, "concurrent map"):
		return "concurrent map access"
	case strings.Contains(m, "all goroutines are asleep"):
		return "deadlock"
	case strings.HasPrefix(m, "runtime error:"):
		return strings.TrimSpace(strings.TrimPrefix(m, "runtime error:"))
	case strings.HasPrefix(m, "fatal error:"):
		return "fatal: " + strings.TrimSpace(strings.TrimPrefix(m, "fatal error:"))
	}
	if len(m) > 40 {
		m = m[:40]
	}
	return "explicit panic: " + m
}

// parseStack reads the frames of one goroutine's stack (debug.Stack() output or the first goroutine of a crash dump).
func parseStack(msg, stack string) sig {
	s := sig{Msg: msg, Cls: errClass(msg)}
	// only the first goroutine section
	if i := strings.Index(stack, "\n\ngoroutine "); i >= 0 && strings.HasPrefix(strings.TrimSpace(stack), "goroutine ") {
		stack = stack[:i]
	}
	if m := reCreated.FindStringSubmatch(stack); m != nil {
		s.Created = shortFn(stripClosure(m[1]))
	}
	s.Guarded = strings.Contains(stack, "engines/wire.guard") || strings.Contains(stack, "engines/wire.(*runner)")
	afterPanic := !strings.Contains(stack, "\npanic(")
	for _, line := range strings.Split(stack, "\n") {
		if line == "" || line[0] == '\t' || line[0] == ' ' || strings.HasPrefix(line, "goroutine ") || strings.HasPrefix(line, "created by") {
			continue
		}
		i := strings.LastIndex(line, "(")
		if i <= 0 {
			continue
		}
		f := line[:i]
		if f == "panic" {
			afterPanic = true
			continue
		}
		if !afterPanic {
			continue
		}
		if strings.HasPrefix(f, "runtime.") || strings.HasPrefix(f, "runtime/") || strings.Contains(f, "engines/wire") || strings.HasPrefix(f, "main.") {
			continue
		}
		if s.Inner == "" {
			s.Inner = shortFn(stripClosure(f))
		}
		if strings.HasPrefix(f, "github.com/zen-eth/") {
			s.Site = shortFn(stripClosure(f))
			break
		}
	}
	if s.Site == "" {
		s.Site = s.Inner
	}
	return s
}

var reCrash = regexp.MustCompile(`(?m)^(panic: .*|fatal error: .*)$`)

// parseCrash reads a Go crash dump (stderr of a dead child).
func parseCrash(out string) (sig, bool) {
	m := reCrash.FindStringIndex(out)
	if m == nil {
		return sig{}, false
	}
	msg := out[m[0]:m[1]]
	rest := out[m[1]:]
	// "panic: ... [recovered]" chains: take the last panic line before the first goroutine
	g := strings.Index(rest, "goroutine ")
	if g < 0 {
		return sig{Msg: msg, Cls: errClass(msg)}, true
	}
	return parseStack(msg, rest[g:]), true
}
