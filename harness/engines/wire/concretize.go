package wire

// Shape -> bytes. A case names a point of the layout (spec/Wire.tla CaseSpace); the concretiser builds the byte string
// with seeded filler, genuine vectors and - for further fills of well-formed shapes - one seeded mutation on top
// (truncate, extend, shift an offset, flip bytes).

import (
	"crypto/ecdsa"
	"encoding/binary"
	"math/big"
	"math/rand"
	"net"

	"github.com/ethereum/go-ethereum/core/types"
	"github.com/ethereum/go-ethereum/p2p/enode"
	"github.com/ethereum/go-ethereum/p2p/enr"
	"github.com/ethereum/go-ethereum/rlp"
	"github.com/zen-eth/shisui/portalwire"
	pingext "github.com/zen-eth/shisui/portalwire/ping_ext"
	htypes "github.com/zen-eth/shisui/types/history"
)

type kase struct {
	Ch    string `json:"ch"`
	Net   string `json:"net"`
	Kind  string `json:"kind"`
	Code  int    `json:"code"`
	N     int    `json:"n"`
	Off   string `json:"off"`
	Io    int    `json:"io"`
	Sub   string `json:"sub"`
	Sv    int    `json:"sv"`
	Pl    string `json:"pl"`
	Pn    int    `json:"pn"`
	Cnt   int    `json:"cnt"`
	Kc    string `json:"kc"`
	Ksel  int    `json:"ksel"`
	Kn    int    `json:"kn"`
	Cc    string `json:"cc"`
	Ver   int    `json:"ver"`
	St    string `json:"st"`
	Fu    string `json:"fu"`
	Exp   string `json:"exp"`
	Today string `json:"today"`
}

type input struct {
	msg      []byte   // req / resp / utp / stream: the delivered byte string
	keys     [][]byte // content channels: key; stream offer: the accepted keys; resp accept: the keys we offered
	contents [][]byte
	key      []byte // the shaped key
	mut      string
	dists    []uint // resp nodes: the distances we asked for
	slow     bool   // the call is expected to wait for one of the code's own timeouts
}

func u16le(x int) []byte { b := make([]byte, 2); binary.LittleEndian.PutUint16(b, uint16(x)); return b }
func u32le(x int) []byte { b := make([]byte, 4); binary.LittleEndian.PutUint32(b, uint32(x)); return b }
func u64le(x uint64) []byte {
	b := make([]byte, 8)
	binary.LittleEndian.PutUint64(b, x)
	return b
}
func filler(rng *rand.Rand, n int) []byte {
	if n < 0 {
		n = 0
	}
	b := make([]byte, n)
	rng.Read(b)
	return b
}
func cat(parts ...[]byte) []byte {
	var out []byte
	for _, p := range parts {
		out = append(out, p...)
	}
	if out == nil {
		out = []byte{}
	}
	return out
}

// resize truncates or extends (with filler) to n bytes.
func resize(rng *rand.Rand, b []byte, n int) []byte {
	if n < 0 {
		return b
	}
	if n <= len(b) {
		return append([]byte{}, b[:n]...)
	}
	return cat(b, filler(rng, n-len(b)))
}

// offClass rewrites the 4-byte offset at pos according to the class. other = position of a neighbouring offset (for "decr").
func offClass(b []byte, pos int, class string, other int) {
	if pos+4 > len(b) || class == "exact" || class == "" {
		return
	}
	nat := int(binary.LittleEndian.Uint32(b[pos:]))
	v := nat
	switch class {
	case "m1":
		v = nat - 1
	case "p1":
		v = nat + 1
	case "beyond":
		v = len(b) + 5
	case "zero":
		v = 0
	case "decr":
		if other >= 0 && other+4 <= len(b) {
			o := int(binary.LittleEndian.Uint32(b[other:]))
			if other > pos {
				v = o + 1 // this offset above its successor
			} else {
				v = o - 1 // this offset below its predecessor
			}
		} else {
			v = nat - 2
		}
	}
	binary.LittleEndian.PutUint32(b[pos:], uint32(v))
}

// sszList encodes a list of variable-size items: offsets then items.
func sszList(items [][]byte) []byte {
	off := 4 * len(items)
	var head, tail []byte
	for _, it := range items {
		head = append(head, u32le(off)...)
		tail = append(tail, it...)
		off += len(it)
	}
	return cat(head, tail)
}

// listOffsets applies an offset class to container offset (io = 0, at pos0) or to the io-th inner offset of the list at listStart.
func listOffsets(b []byte, pos0, listStart, cnt int, c *kase) {
	if c.Off == "exact" {
		return
	}
	if c.Io == 0 {
		offClass(b, pos0, c.Off, -1)
		return
	}
	pos := listStart + 4*(c.Io-1)
	other := -1
	if c.Io >= 2 {
		other = pos - 4
	} else if cnt >= 2 {
		other = pos + 4
	}
	offClass(b, pos, c.Off, other)
}

// ---- ping / pong payloads --------------------------------------------------------------------------------

func validPayload(rng *rand.Rand, pt int) []byte {
	radius := filler(rng, 32)
	switch pt {
	case int(pingext.ClientInfo):
		b, _ := pingext.NewClientInfoAndCapabilitiesPayload(radius, []uint16{0, 1, 2, 65535}).MarshalSSZ()
		return b
	case int(pingext.BasicRadius):
		return radius
	case int(pingext.HistoryRadius):
		return cat(radius, u16le(rng.Intn(300)))
	case int(pingext.Error):
		return pingext.GetErrorPayloadBytes(uint16(rng.Intn(4)))
	}
	return filler(rng, 32)
}

func payloadFor(rng *rand.Rand, c *kase) []byte {
	p := validPayload(rng, c.Sv)
	if c.Sv == int(pingext.ClientInfo) && (c.St == "capsnobase" || c.St == "capsempty") {
		caps := []uint16{65535, 7, 4711}
		if c.St == "capsempty" {
			caps = []uint16{}
		}
		b, _ := pingext.NewClientInfoAndCapabilitiesPayload(filler(rng, 32), caps).MarshalSSZ()
		return b
	}
	switch c.Pl {
	case "valid":
		return p
	case "inneroff":
		switch c.Sv {
		case int(pingext.ClientInfo):
			offClass(p, 0, []string{"p1", "m1", "beyond", "zero"}[rng.Intn(4)], -1)
		case int(pingext.Error):
			offClass(p, 2, []string{"p1", "m1", "beyond", "zero"}[rng.Intn(4)], -1)
		default:
			if len(p) > 0 {
				p[rng.Intn(len(p))] ^= 0xff
			}
		}
		return p
	}
	return resize(rng, p, c.Pn)
}

func pingBody(rng *rand.Rand, c *kase) []byte {
	seq := uint64(rng.Intn(5))
	if c.St == "seqhigh" { // above the sequence number of the sender's record in the routing table: the node asks for the record
		seq = []uint64{1 << 20, 1<<63 + 5, ^uint64(0)}[rng.Intn(3)]
	}
	b := cat(u64le(seq), u16le(c.Sv), u32le(14), payloadFor(rng, c))
	offClass(b, 10, c.Off, -1)
	return resize(rng, b, c.N)
}

// ---- keys ------------------------------------------------------------------------------------------------

func keyBody(netw string, sel int) int {
	switch netw {
	case "history":
		switch sel {
		case 3:
			return 8
		case 4, 5:
			return 33
		}
		return 32
	case "beacon":
		switch sel {
		case 16:
			return 32
		case 17:
			return 16
		}
		return 8
	}
	switch sel {
	case 32:
		return 37
	case 33:
		return 69
	case 34:
		return 64
	}
	return 32
}

// wellFormedKey synthesises a well-formed key of the shortest form.
func wellFormedKey(rng *rand.Rand, netw string, sel int) []byte {
	switch {
	case netw == "state" && sel == 32:
		return cat([]byte{32}, u32le(36), filler(rng, 32), []byte{0x00})
	case netw == "state" && sel == 33:
		return cat([]byte{33}, filler(rng, 32), u32le(68), filler(rng, 32), []byte{0x00})
	case netw == "beacon" && sel == 17:
		return cat([]byte{17}, u64le(uint64(rng.Intn(2000))), u64le(1))
	case netw == "beacon" && sel >= 18 && sel <= 20:
		return cat([]byte{byte(sel)}, u64le(uint64(rng.Intn(1<<24))))
	case netw == "history" && sel == 3:
		return cat([]byte{3}, u64le(uint64(rng.Intn(20_000_000))))
	}
	return cat([]byte{byte(sel)}, filler(rng, keyBody(netw, sel)))
}

// shapedKey builds the key of a case; vec = genuine vector for (net, selector) if one exists and fill is even.
func (x *runner) shapedKey(rng *rand.Rand, c *kase, fill int) (key []byte, vec *vector) {
	if c.Kc == "empty" {
		return []byte{}, nil
	}
	if c.Kc == "na" {
		return nil, nil
	}
	var base []byte
	if v, ok := x.vs.get(c.Net, c.Ksel, fill/2); ok && fill%2 == 0 {
		base, vec = append([]byte{}, v.key...), &v
	} else {
		base = wellFormedKey(rng, c.Net, c.Ksel)
	}
	switch c.Kc {
	case "exact":
		return base, vec
	case "sel":
		return base[:1], nil
	case "short1":
		return resize(rng, base, 2), nil
	case "short":
		return base[:len(base)-1], nil
	case "long":
		return cat(base, filler(rng, 1)), nil
	case "lim", "limp1":
		return resize(rng, base, c.Kn), nil
	}
	return base, vec
}

// ---- contents ---------------------------------------------------------------------------------------------

func firstOffsetPos(netw string) int {
	if netw == "beacon" {
		return 4 // fork digest first
	}
	return 0
}

func (x *runner) contentFor(rng *rand.Rand, c *kase, fill int, vec *vector) []byte {
	var valid []byte
	if vec != nil {
		valid = append([]byte{}, vec.content...)
	} else if v, ok := x.vs.get(c.Net, c.Ksel, fill/2); ok {
		valid = append([]byte{}, v.content...)
	} else {
		valid = filler(rng, 200)
	}
	switch c.Cc {
	case "empty":
		return []byte{}
	case "one":
		return filler(rng, 1)
	case "two":
		return filler(rng, 2)
	case "fill32":
		return filler(rng, 32)
	case "fillbig":
		return filler(rng, 4096)
	case "valid":
		return valid
	case "trunc":
		if len(valid) == 0 {
			return valid
		}
		return valid[:rng.Intn(len(valid))]
	case "ext":
		return cat(valid, filler(rng, 1+rng.Intn(8)))
	case "offshift":
		p := firstOffsetPos(c.Net)
		if rng.Intn(2) == 1 {
			p += 4
		}
		offClass(valid, p, []string{"m1", "p1", "beyond", "zero"}[rng.Intn(4)], -1)
		return valid
	case "offdecr":
		// offsets of the fixed part: positions p, p+4, ... below the first offset's value; of the first inner list: from there
		p := firstOffsetPos(c.Net)
		if len(valid) < p+8 {
			return valid
		}
		first := int(binary.LittleEndian.Uint32(valid[p:]))
		tab, end := p, first // the table to damage: [tab, end)
		if (first-p)/4 < 2 || fill%5 == 4 {
			// the first variable field is itself a list of variable-size items: its own offset table starts at `first`
			if first+8 <= len(valid) {
				if in := int(binary.LittleEndian.Uint32(valid[first:])); in >= 8 && first+in <= len(valid) {
					tab, end = first, first+in
				}
			}
		}
		if end > len(valid) || (end-tab)/4 < 2 {
			return valid
		}
		nlater := (end-tab)/4 - 1
		if nlater > 4 {
			nlater = 4
		}
		q := tab + 4*(1+(fill/2)%nlater) // a later offset, in turn
		prev := binary.LittleEndian.Uint32(valid[q-4:])
		switch (fill / 2 / nlater) % 3 {
		case 0: // just below its predecessor
			if prev > 0 {
				binary.LittleEndian.PutUint32(valid[q:], prev-uint32(1+rng.Intn(int(min(prev, 8)))))
			}
		case 1: // swapped with its predecessor
			cur := binary.LittleEndian.Uint32(valid[q:])
			binary.LittleEndian.PutUint32(valid[q-4:], cur)
			binary.LittleEndian.PutUint32(valid[q:], prev)
		default: // back to the start of the table
			binary.LittleEndian.PutUint32(valid[q:], uint32(end-tab))
			if tab == p {
				binary.LittleEndian.PutUint32(valid[q:], uint32(first))
			}
			if prev > uint32(first) && tab == p {
				binary.LittleEndian.PutUint32(valid[q:], uint32(first)+uint32(rng.Intn(int(prev)-first)))
			}
		}
		return valid
	case "flip":
		for k := 0; k < 1+rng.Intn(3) && len(valid) > 0; k++ {
			valid[rng.Intn(len(valid))] ^= byte(1 << uint(rng.Intn(8)))
		}
		return valid
	case "other":
		if v, ok := x.vs.other(c.Net, c.Ksel, fill); ok {
			return append([]byte{}, v.content...)
		}
		return filler(rng, 300)
	case "zeroitem":
		if c.Net == "beacon" && c.Ksel != 17 {
			return cat([]byte{0xbb, 0xa4, 0xda, 0x96}, u32le(4))
		}
		// as many zero-length items as the key of an update range announces
		n := 1
		if c.Net == "beacon" && vec != nil && len(vec.key) == 17 {
			if k := binary.LittleEndian.Uint64(vec.key[9:]); k >= 1 && k <= 128 {
				n = int(k)
			}
		}
		var out []byte
		for i := 0; i < n; i++ {
			out = append(out, u32le(4*n)...)
		}
		return out
	case "emptyvar":
		// the fixed part alone: cut at the first offset, every offset of the fixed part moved to the new end
		p := firstOffsetPos(c.Net)
		if len(valid) < p+4 {
			return valid
		}
		o := int(binary.LittleEndian.Uint32(valid[p:]))
		if o < p+4 || o > len(valid) {
			return valid
		}
		out := append([]byte{}, valid[:o]...)
		for q := p; q+4 <= o; q += 4 {
			if v := int(binary.LittleEndian.Uint32(out[q:])); v >= o && v <= len(valid) {
				binary.LittleEndian.PutUint32(out[q:], uint32(o))
			}
		}
		return out
	case "relayout":
		// the outer container as a run of offsets (true for block bodies; other types get one more malformed shape)
		if len(valid) < 8 {
			return valid
		}
		o1 := int(binary.LittleEndian.Uint32(valid))
		if o1 < 4 || o1%4 != 0 || o1 > len(valid) || o1 > 64 {
			return valid
		}
		last := int(binary.LittleEndian.Uint32(valid[o1-4:]))
		if last == len(valid) && o1 >= 12 && fill%2 == 1 {
			// drop the empty last field
			out := append([]byte{}, valid[:o1-4]...)
			out = append(out, valid[o1:]...)
			for q := 0; q+4 <= o1-4; q += 4 {
				binary.LittleEndian.PutUint32(out[q:], binary.LittleEndian.Uint32(out[q:])-4)
			}
			return out
		}
		out := append([]byte{}, valid[:o1]...)
		out = append(out, u32le(len(valid)+4)...)
		out = append(out, valid[o1:]...)
		for q := 0; q+4 <= o1; q += 4 {
			binary.LittleEndian.PutUint32(out[q:], binary.LittleEndian.Uint32(out[q:])+4)
		}
		return out
	case "otherblk":
		l := x.vs.bySel[c.Net][c.Ksel]
		if len(l) > 1 {
			// walk to an item of the same selector under another key
			for k := 1; k < len(l); k++ {
				v := l[(fill/2+k+rng.Intn(len(l)-1))%len(l)]
				if vec == nil || string(v.key) != string(vec.key) {
					return append([]byte{}, v.content...)
				}
			}
		}
		return filler(rng, 300)
	case "digest":
		return []byte{0xbb, 0xa4, 0xda, 0x96}
	case "digestfill":
		return cat([]byte{0xbb, 0xa4, 0xda, 0x96}, filler(rng, 200+rng.Intn(800)))
	}
	return valid
}

// fieldCase rewrites the position field of a genuine item (and its key where the key binds that field): history headers
// get a block number at / beyond an era boundary with a proof of the shape of another era and post-merge proofs a slot at a
// boundary / far out of range; beacon keys get boundary / far periods and slots; state keys get the longest / an
// over-long path. far = c.Cc == "fldfar".
func (x *runner) fieldCase(rng *rand.Rand, c *kase, key, content []byte) ([]byte, []byte) {
	far := c.Cc == "fldfar"
	switch c.Net {
	case "history":
		if c.Ksel != 0 && c.Ksel != 3 {
			return key, content
		}
		hwp := &htypes.BlockHeaderWithProof{}
		if hwp.UnmarshalSSZ(content) != nil {
			return key, content
		}
		hdr := new(types.Header)
		if rlp.DecodeBytes(hwp.Header, hdr) != nil {
			return key, content
		}
		// slot field of the three post-merge proof containers: the last 8 bytes
		if len(hwp.Proof) >= 8 && rng.Intn(2) == 0 {
			slots := []uint64{0, 8191, 8192, 6209535, 6209536, 6209536 + 8192*5000}
			if far {
				slots = []uint64{1 << 40, 1<<63 - 1, 1 << 63, ^uint64(0)}
			}
			binary.LittleEndian.PutUint64(hwp.Proof[len(hwp.Proof)-8:], slots[rng.Intn(len(slots))])
		} else {
			nums := []uint64{0, 8191, 8192, htypes.MergeBlockNumber - 1, htypes.MergeBlockNumber, htypes.ShanghaiBlockNumber - 1, htypes.ShanghaiBlockNumber, htypes.CancunNumber - 1, htypes.CancunNumber}
			if far {
				nums = []uint64{htypes.MergeBlockNumber + 8192*4000, 1 << 40, 1<<63 - 1, ^uint64(0)}
			}
			hdr.Number = new(big.Int).SetUint64(nums[rng.Intn(len(nums))])
			if far && rng.Intn(3) == 0 {
				hdr.Number = new(big.Int).Lsh(big.NewInt(1), 70) // wider than 64 bits
			}
			hwp.Header, _ = rlp.EncodeToBytes(hdr)
			if c.Ksel == 0 {
				key = cat([]byte{0}, hdr.Hash().Bytes())
			} else {
				key = cat([]byte{3}, u64le(hdr.Number.Uint64()))
			}
		}
		b, err := hwp.MarshalSSZ()
		if err != nil {
			return key, content
		}
		return key, b
	case "beacon":
		vals := []uint64{0, 1, 8191, 8192}
		if far {
			vals = []uint64{1 << 40, 1<<63 - 1, 1 << 63, ^uint64(0)}
		}
		v := vals[rng.Intn(len(vals))]
		switch c.Ksel {
		case 17:
			if len(key) == 17 {
				if rng.Intn(2) == 0 {
					copy(key[1:9], u64le(v))
				} else {
					copy(key[9:17], u64le(v))
				}
			}
		case 18, 19, 20:
			if len(key) == 9 {
				copy(key[1:9], u64le(v))
			}
		}
		return key, content
	case "state":
		// path: packed nibbles at the end of the key; boundary = 64 nibbles, far = 65+ nibbles / bad flag
		if c.Ksel == 32 || c.Ksel == 33 {
			var path []byte
			if far {
				if rng.Intn(2) == 0 {
					path = cat([]byte{0x10 | byte(rng.Intn(16))}, filler(rng, 32)) // 65 nibbles
				} else {
					path = cat([]byte{0x20 | byte(rng.Intn(16))}, filler(rng, 3)) // bad flag
				}
			} else {
				path = cat([]byte{0x00}, filler(rng, 32)) // 64 nibbles
			}
			fixed := 37 - 1
			if c.Ksel == 33 {
				fixed = 69 - 1
			}
			if len(key) >= 1+fixed {
				key = cat(key[:1+fixed], path)
			}
		}
		return key, content
	}
	return key, content
}

// pathCut: state network keys 32 / 33 carry the trie path as packed nibbles at their end; the genuine item is kept and the
// path cut to a shorter length (every length is drawn over the concretisations), so that it ends inside whatever node of
// the proof covers that depth (sweep mutant 05-C01: an off-by-one guard in the extension-node case of TraverseTrieNode)
func pathCut(rng *rand.Rand, c *kase, key []byte) []byte {
	fixed := 0
	switch c.Ksel {
	case 32:
		fixed = 36
	case 33:
		fixed = 68
	default:
		return key
	}
	if len(key) < 1+fixed+1 {
		return key
	}
	packed := key[1+fixed:]
	var nibbles []byte
	switch packed[0] >> 4 {
	case 0:
	case 1:
		nibbles = append(nibbles, packed[0]&0x0f)
	default:
		return key
	}
	for _, b := range packed[1:] {
		nibbles = append(nibbles, b>>4, b&0x0f)
	}
	if len(nibbles) == 0 {
		return key
	}
	nibbles = nibbles[:rng.Intn(len(nibbles))]
	var out []byte
	if len(nibbles)%2 == 1 {
		out = append(out, 0x10|nibbles[0])
		nibbles = nibbles[1:]
	} else {
		out = append(out, 0x00)
	}
	for i := 0; i+1 < len(nibbles); i += 2 {
		out = append(out, nibbles[i]<<4|nibbles[i+1])
	}
	return cat(key[:1+fixed], out)
}

// ---- ENRs ---------------------------------------------------------------------------------------------------

func signedENR(key *ecdsa.PrivateKey, ip net.IP, port int, seq uint64, pad int) *enode.Node {
	var r enr.Record
	r.Set(enr.IP(ip))
	r.Set(enr.UDP(port))
	if pad > 0 {
		r.Set(enr.WithEntry("zz", make([]byte, pad)))
	}
	r.SetSeq(seq)
	if err := enode.SignV4(&r, key); err != nil {
		return nil
	}
	n, err := enode.New(enode.ValidSchemes, &r)
	if err != nil {
		return nil
	}
	return n
}

func enrBytes(n *enode.Node) ([]byte, error) { return rlp.EncodeToBytes(n.Record()) }

// enrItems builds cnt records of a class; dists = the distances (from sender) that make the valid ones acceptable.
func (x *runner) enrItems(rng *rand.Rand, class string, cnt int, sender *enode.Node) (items [][]byte, dists []uint) {
	seen := map[uint]bool{}
	var first []byte
	for i := 0; i < cnt; i++ {
		var b []byte
		switch class {
		case "garbage":
			b = filler(rng, 20+rng.Intn(80))
		case "empty":
			b = []byte{}
		case "big":
			b = filler(rng, 2049)
		case "self":
			b, _ = enrBytes(x.w.ln.Node())
		default:
			port := 2000 + rng.Intn(30000)
			if class == "lowport" {
				port = 80
			}
			n := signedENR(seededKey(rng), net.IP{10, 1, byte(rng.Intn(250)), byte(1 + rng.Intn(250))}, port, 1, 0)
			b, _ = enrBytes(n)
			d := uint(enode.LogDist(sender.ID(), n.ID()))
			if !seen[d] {
				seen[d] = true
				dists = append(dists, d)
			}
			if class == "dup" {
				if first == nil {
					first = b
				} else {
					b = first
				}
			}
		}
		items = append(items, b)
	}
	if class == "wrongdist" || len(dists) == 0 {
		dists = []uint{1}
	}
	return items, dists
}

// ---- uTP packets --------------------------------------------------------------------------------------------

func utpPacket(rng *rand.Rand, c *kase, connID uint16) []byte {
	if c.Kind == "raw" {
		return filler(rng, c.N)
	}
	t := map[string]byte{"data": 0, "fin": 1, "state": 2, "reset": 3, "syn": 4, "unk5": 5, "unk15": 15}[c.Kind]
	ext := byte(0)
	var chain []byte
	switch c.Sub {
	case "sack0":
		ext, chain = 1, []byte{0, 0}
	case "sack3":
		ext, chain = 1, cat([]byte{0, 3}, filler(rng, 3))
	case "sack4":
		ext, chain = 1, cat([]byte{0, 4}, filler(rng, 4))
	case "sack8":
		ext, chain = 1, cat([]byte{0, 8}, filler(rng, 8))
	case "sackbeyond":
		ext, chain = 1, cat([]byte{0, 200}, filler(rng, 4))
	case "sackhdr1":
		ext, chain = 1, []byte{0}
	case "unkext":
		ext, chain = 2, cat([]byte{0, 4}, filler(rng, 4))
	case "chain":
		ext, chain = 1, cat([]byte{2, 4}, filler(rng, 4), []byte{1, 4}, filler(rng, 4), []byte{0, 0})
	}
	cid := connID
	if c.Kind != "syn" {
		cid = connID + 1
	}
	h := make([]byte, 20)
	h[0] = t<<4 | byte(c.Sv&0x0f)
	h[1] = ext
	binary.BigEndian.PutUint16(h[2:], cid)
	binary.BigEndian.PutUint32(h[4:], rng.Uint32())
	binary.BigEndian.PutUint32(h[8:], rng.Uint32())
	binary.BigEndian.PutUint32(h[12:], uint32(1<<20))
	binary.BigEndian.PutUint16(h[16:], uint16(rng.Intn(1<<16)))
	binary.BigEndian.PutUint16(h[18:], uint16(rng.Intn(1<<16)))
	return cat(h, chain, filler(rng, c.Pn))
}

// ---- LEB128 framing -----------------------------------------------------------------------------------------

func varint(n uint64) []byte {
	var b []byte
	for {
		c := byte(n & 0x7f)
		n >>= 7
		if n != 0 {
			b = append(b, c|0x80)
		} else {
			return append(b, c)
		}
	}
}

func frame(rng *rand.Rand, items [][]byte, framing string, want int) []byte {
	enc := func(its [][]byte) []byte {
		var b []byte
		for _, it := range its {
			b = append(b, varint(uint64(len(it)))...)
			b = append(b, it...)
		}
		if b == nil {
			b = []byte{}
		}
		return b
	}
	switch framing {
	case "empty":
		return []byte{}
	case "exact":
		return enc(items)
	case "fewer":
		return enc(items[:len(items)-1])
	case "more":
		return enc(append(append([][]byte{}, items...), filler(rng, 10)))
	case "vtrunc":
		if rng.Intn(2) == 0 {
			return cat(enc(items), []byte{0x80})
		}
		return cat(enc(items[:len(items)-1]), []byte{0xff, 0xff})
	case "vbeyond":
		last := items[len(items)-1]
		// mostly just beyond: the announced length exceeds what follows by 1, 2 or 3 bytes - less than the prefix itself is long,
		// which is where a bounds check that forgets the prefix goes wrong (sweep mutant E/23-C01)
		k := []int{0, 0, 1, 2, rng.Intn(1000)}[rng.Intn(5)]
		return cat(enc(items[:len(items)-1]), varint(uint64(len(last)+1+k)), last)
	case "vwrap":
		last := items[len(items)-1]
		return cat(enc(items[:len(items)-1]), varint(uint64(1<<32-1-rng.Intn(5))), last)
	case "voverflow":
		return cat(enc(items[:len(items)-1]), []byte{0xff, 0xff, 0xff, 0xff, 0xff, 0xff, 0xff, 0xff, 0xff, 0xff, 0x01}, items[len(items)-1])
	case "vnonmin":
		last := items[len(items)-1]
		if len(last) > 100 {
			last = last[:100]
		}
		return cat(enc(items[:len(items)-1]), []byte{byte(len(last)) | 0x80, 0x00}, last)
	case "zerolen":
		z := make([][]byte, len(items))
		for i := range z {
			z[i] = []byte{}
		}
		return enc(z)
	case "trailing":
		return cat(enc(items), filler(rng, 3))
	case "big":
		its := append([][]byte{}, items...)
		its[len(its)-1] = filler(rng, 200_000)
		return enc(its)
	}
	return enc(items)
}

// ---- seeded mutation on top of a well-formed message ---------------------------------------------------------

func mutate(rng *rand.Rand, b []byte, offsetPositions []int) ([]byte, string) {
	if len(b) == 0 {
		return b, "none"
	}
	switch rng.Intn(4) {
	case 0:
		return append([]byte{}, b[:rng.Intn(len(b))]...), "trunc"
	case 1:
		return cat(b, filler(rng, 1+rng.Intn(6))), "extend"
	case 2:
		if len(offsetPositions) > 0 {
			p := offsetPositions[rng.Intn(len(offsetPositions))]
			out := append([]byte{}, b...)
			offClass(out, p, []string{"m1", "p1", "beyond", "zero"}[rng.Intn(4)], -1)
			return out, "shift"
		}
		fallthrough
	default:
		out := append([]byte{}, b...)
		for k := 0; k < 1+rng.Intn(3); k++ {
			out[rng.Intn(len(out))] ^= byte(1 << uint(rng.Intn(8)))
		}
		return out, "flip"
	}
}

var _ = portalwire.PING
