package wire

// Genuine (content key, content) pairs from the repository's own test vectors. They are the "valid encodings" that
// the content classes valid / trunc / ext / offshift / flip / other / fldbnd / fldfar start from.

import (
	"encoding/hex"
	"fmt"
	"os"
	"path/filepath"
	"regexp"
	"sort"
	"strings"
)

type vector struct {
	key, content []byte
	header       []byte // state vectors: RLP of the block header the proof is anchored in
	src          string
}

type vectorSet struct {
	bySel map[string]map[int][]vector // net -> selector -> vectors
	heads map[string][]byte           // history: block hash -> header-with-proof content, every vector of the repository
}

var (
	reKey   = regexp.MustCompile(`content_key["']?\s*:\s*["']?(0x[0-9a-fA-F]*)`)
	reVal   = regexp.MustCompile(`(content_value_offer|content_value|value)["']?\s*:\s*["']?(0x[0-9a-fA-F]*)`)
	reHdr   = regexp.MustCompile(`block_header["']?\s*:\s*["']?(0x[0-9a-fA-F]*)`)
	reRetrv = regexp.MustCompile(`content_value_retrieval`)
)

func unhex(s string) []byte {
	b, _ := hex.DecodeString(strings.TrimPrefix(s, "0x"))
	return b
}

// scanPairs extracts (key, value) pairs in file order: every content_key is paired with the next value field.
func scanPairs(path string) ([]vector, error) {
	data, err := os.ReadFile(path)
	if err != nil {
		return nil, err
	}
	txt := string(data)
	var out []vector
	keys := reKey.FindAllStringSubmatchIndex(txt, -1)
	for i, k := range keys {
		end := len(txt)
		if i+1 < len(keys) {
			end = keys[i+1][0]
		}
		seg := txt[k[1]:end]
		v := reVal.FindStringSubmatch(seg)
		if v == nil {
			continue
		}
		vec := vector{key: unhex(txt[k[2]:k[3]]), content: unhex(v[2]), src: filepath.Base(path)}
		// the block header of a state vector precedes its key
		start := 0
		if i > 0 {
			start = keys[i-1][1]
		}
		if h := reHdr.FindAllStringSubmatch(txt[start:k[0]], -1); len(h) > 0 {
			vec.header = unhex(h[len(h)-1][1])
		}
		out = append(out, vec)
	}
	return out, nil
}

// layoutOf: the value of the first offset of an item = the size of its fixed part (-1: too short)
func layoutOf(b []byte) int {
	if len(b) < 4 {
		return -1
	}
	return int(uint32(b[0]) | uint32(b[1])<<8 | uint32(b[2])<<16 | uint32(b[3])<<24)
}

func loadVectors(repo string) (*vectorSet, error) {
	vs := &vectorSet{bySel: map[string]map[int][]vector{"history": {}, "beacon": {}, "state": {}}, heads: map[string][]byte{}}
	files := map[string][]string{
		"history": {"history/testdata/validation/1.yaml", "history/testdata/validation/15537393.yaml", "history/testdata/validation/7000000.yaml",
			"types/history/testdata/header_with_proof.yaml", "history/testdata/validation/100.yaml", "history/testdata/test_data_collection_of_forks_blocks.yaml"},
		"beacon": {"types/beacon/testdata/types/light_client_bootstrap.json", "types/beacon/testdata/types/light_client_updates_by_range.json",
			"types/beacon/testdata/types/light_client_finality_update.json", "types/beacon/testdata/types/light_client_optimistic_update.json",
			"types/beacon/testdata/types/historical_summaries_with_proof.yaml"},
		"state": {"state/testdata/account_trie_node.yaml", "state/testdata/contract_storage_trie_node.yaml", "state/testdata/contract_bytecode.yaml"},
	}
	for net, fs := range files {
		for _, f := range fs {
			ps, err := scanPairs(filepath.Join(repo, f))
			if err != nil {
				return nil, err
			}
			for _, p := range ps {
				if len(p.key) == 0 {
					continue
				}
				sel := int(p.key[0])
				if net == "history" && sel == 0 {
					vs.heads[string(p.key[1:])] = p.content // every header vector, for seeding the store (the kept list is capped)
				}
				if len(vs.bySel[net][sel]) < 8 {
					vs.bySel[net][sel] = append(vs.bySel[net][sel], p)
				} else if f := layoutOf(p.content); f >= 0 {
					// a layout (size of the fixed part, e.g. the third offset of a Shanghai body) not yet among the kept items
					// replaces the last one, and moves to the front so that small numbers of concretisations reach it
					seen := false
					for _, q := range vs.bySel[net][sel] {
						if layoutOf(q.content) == f {
							seen = true
						}
					}
					if !seen {
						l := vs.bySel[net][sel]
						copy(l[2:], l[1:len(l)-1])
						l[1] = p
					}
				}
			}
		}
	}
	for net, m := range vs.bySel {
		if len(m) == 0 {
			return nil, fmt.Errorf("no %s vectors found under %s", net, repo)
		}
	}
	return vs, nil
}

func (vs *vectorSet) get(net string, sel int, i int) (vector, bool) {
	l := vs.bySel[net][sel]
	if len(l) == 0 {
		return vector{}, false
	}
	return l[i%len(l)], true
}

// other returns a genuine item of another selector of the same network.
func (vs *vectorSet) other(net string, sel int, i int) (vector, bool) {
	var sels []int
	for s := range vs.bySel[net] {
		if s != sel {
			sels = append(sels, s)
		}
	}
	if len(sels) == 0 {
		return vector{}, false
	}
	sort.Ints(sels)
	return vs.get(net, sels[i%len(sels)], i)
}
