package wire

// One world = the node under test, configured like portal/node.go does it (one discv5 endpoint, one uTP service, the
// history / beacon / state protocols over their real storage adapters on in-memory pebble, the three validators over the
// production ValidationOracle behind the in-process JSON-RPC server with the three network APIs registered), plus three
// scripted raw discv5 peers on the same in-memory switch: they are the senders of every input, they answer the node's own
// requests (table revalidation, content lookups of the validators' header source) and they differ in the protocol versions
// they advertise (pv [0,1], [0], [2]).

import (
	"context"
	"crypto/ecdsa"
	"encoding/binary"
	"fmt"
	"math/rand"
	"net"
	"net/netip"
	"sync"
	"time"

	cp "github.com/cockroachdb/pebble"
	"github.com/cockroachdb/pebble/vfs"
	"github.com/ethereum/go-ethereum/crypto"
	"github.com/ethereum/go-ethereum/log"
	"github.com/ethereum/go-ethereum/p2p/discover"
	"github.com/ethereum/go-ethereum/p2p/enode"
	"github.com/ethereum/go-ethereum/p2p/enr"
	"github.com/ethereum/go-ethereum/rpc"
	cache "github.com/go-pkgz/expirable-cache/v3"
	"github.com/protolambda/zrnt/eth2/configs"
	"github.com/zen-eth/shisui/beacon"
	"github.com/zen-eth/shisui/history"
	"github.com/zen-eth/shisui/portalwire"
	pingext "github.com/zen-eth/shisui/portalwire/ping_ext"
	"github.com/zen-eth/shisui/state"
	"github.com/zen-eth/shisui/storage"
	"github.com/zen-eth/shisui/storage/pebble"
	htypes "github.com/zen-eth/shisui/types/history"
	"github.com/zen-eth/shisui/validation"

	"verifharness/netsim"
)

type quiet struct{}

func (quiet) Infof(string, ...interface{})  {}
func (quiet) Errorf(string, ...interface{}) {}
func (quiet) Fatalf(string, ...interface{}) {}

var pebbleCache = cp.NewCache(32 << 20)

func memDB() (*cp.DB, error) {
	return cp.Open("db", &cp.Options{FS: vfs.NewMem(), Cache: pebbleCache, MemTableSize: 4 << 20, Logger: quiet{}})
}

type netw struct {
	name  string
	P     *portalwire.PortalProtocol
	Store storage.ContentStorage
	Queue chan *portalwire.ContentElement
	Val   validation.Validator
	// exactly one of the three is set
	H *history.Network
	B *beacon.Network
	S *state.Network
}

func (n *netw) validateContents(keys, contents [][]byte) error {
	switch {
	case n.H != nil:
		return n.H.VerifValidateContents(keys, contents)
	case n.B != nil:
		return n.B.VerifValidateContents(keys, contents)
	default:
		return n.S.VerifValidateContents(keys, contents)
	}
}

// peer is a scripted raw discv5 endpoint.
type peer struct {
	*netsim.RawPeer
	name string
	ver  int // highest version it shares with the node under test (2: none)
	mu   sync.Mutex
	// script: reply to the next request with this message code on this protocol (one shot), else the default answer
	script map[string][]byte // "<proto>/<code>" -> reply
	lookup map[string][]byte // "<proto>" -> content served (raw selector) for every FINDCONTENT, when set
	seen   int
}

type world struct {
	sw       *netsim.Switch
	conn     *netsim.Conn
	key      *ecdsa.PrivateKey
	ln       *enode.LocalNode
	d5       *discover.UDPv5
	utp      *portalwire.UtpTransportService
	nets     map[string]*netw
	beaconDB *cp.DB
	histDB   *cp.DB
	peers    []*peer // index = version class 1, 0, 2 -> peers[0] pv [0,1], peers[1] pv [0], peers[2] pv [2]
	noip     *peer   // a sender whose record has no ip / udp entries
	lightAPI *beacon.PortalLightApi
	srv      *rpc.Server
	started  bool
	attacker *netsim.Node
}

func seededKey(rng *rand.Rand) *ecdsa.PrivateKey {
	for {
		var b [32]byte
		rng.Read(b[:])
		if k, err := crypto.ToECDSA(b[:]); err == nil {
			return k
		}
	}
}

var protoOf = map[string]portalwire.ProtocolId{"history": portalwire.History, "beacon": portalwire.Beacon, "state": portalwire.State}

// newWorld builds the node. live = run the networks' own Start (content loops, beacon light client) as the binary does;
// otherwise only the protocols are started and the harness takes the content queues itself.
func newWorld(rng *rand.Rand, live bool) (*world, error) {
	w := &world{sw: netsim.NewSwitch(), nets: map[string]*netw{}}
	ap := netip.AddrPortFrom(netip.MustParseAddr("10.0.0.1"), 9001)
	w.conn = w.sw.Listen(ap)
	w.key = seededKey(rng)
	db, err := enode.OpenDB("")
	if err != nil {
		return nil, err
	}
	w.ln = enode.NewLocalNode(db, w.key)
	w.ln.SetStaticIP(net.ParseIP("10.0.0.1"))
	w.ln.SetFallbackUDP(9001)
	w.ln.Set(portalwire.Versions)
	w.ln.Set(portalwire.Tag)
	w.d5, err = discover.ListenV5(w.conn, w.ln, discover.Config{PrivateKey: w.key, Log: log.New()})
	if err != nil {
		return nil, err
	}
	conf := portalwire.DefaultPortalProtocolConfig()
	w.utp = portalwire.NewZenEthUtp(context.Background(), conf, w.d5, w.conn)
	vc := cache.NewCache[*enode.Node, uint8]().WithMaxKeys(conf.VersionsCacheSize).WithTTL(conf.VersionsCacheTTL)
	w.srv = rpc.NewServer()
	mk := func(name string, st storage.ContentStorage, qcap int) (*netw, error) {
		q := make(chan *portalwire.ContentElement, qcap)
		p, err := portalwire.NewPortalProtocol(conf, protoOf[name], w.key, w.conn, w.ln, w.d5, w.utp, st, q, vc, portalwire.WithDisableTableInitCheckOption(true))
		if err != nil {
			return nil, err
		}
		n := &netw{name: name, P: p, Store: st, Queue: q}
		w.nets[name] = n
		return n, nil
	}

	// ---- history: eternal pebble store + ephemeral store behind the hybrid adapter
	w.histDB, err = memDB()
	if err != nil {
		return nil, err
	}
	scfg := storage.PortalStorageConfig{StorageCapacityMB: 100, NodeId: w.ln.ID(), NetworkName: "history"}
	eternal, err := pebble.NewStorage(scfg, w.histDB)
	if err != nil {
		return nil, err
	}
	ephDB, err := memDB()
	if err != nil {
		return nil, err
	}
	hybrid, err := history.NewHistoryStorage(eternal, history.NewEphemeralStorage(scfg, ephDB))
	if err != nil {
		return nil, err
	}
	hn, err := mk("history", hybrid, 50)
	if err != nil {
		return nil, err
	}
	if err := w.srv.RegisterName("portal", history.NewHistoryNetworkAPI(portalwire.NewPortalAPI(hn.P))); err != nil {
		return nil, err
	}

	// ---- beacon
	w.beaconDB, err = memDB()
	if err != nil {
		return nil, err
	}
	bst, err := beacon.NewBeaconStorage(storage.PortalStorageConfig{StorageCapacityMB: 100, NodeId: w.ln.ID(), Spec: configs.Mainnet, NetworkName: "beacon"}, w.beaconDB)
	if err != nil {
		return nil, err
	}
	bn, err := mk("beacon", bst, 50)
	if err != nil {
		return nil, err
	}
	bcfg := beacon.DefaultConfig()
	w.lightAPI = beacon.NewPortalLightApi(bn.P, bcfg.Spec)
	lc, err := beacon.NewConsensusLightClient(w.lightAPI, &bcfg, bcfg.DefaultCheckpoint, log.New("beacon", "light-client"))
	if err != nil {
		return nil, err
	}
	if err := w.srv.RegisterName("portal", beacon.NewBeaconNetworkAPI(portalwire.NewPortalAPI(bn.P), lc)); err != nil {
		return nil, err
	}

	// ---- state
	sdb, err := memDB()
	if err != nil {
		return nil, err
	}
	sst, err := pebble.NewStorage(storage.PortalStorageConfig{StorageCapacityMB: 100, NodeId: w.ln.ID(), NetworkName: "state"}, sdb)
	if err != nil {
		return nil, err
	}
	sn, err := mk("state", state.NewStateStorage(sst, sdb), conf.MaxUtpConnSize)
	if err != nil {
		return nil, err
	}
	if err := w.srv.RegisterName("portal", state.NewStateNetworkAPI(portalwire.NewPortalAPI(sn.P))); err != nil {
		return nil, err
	}

	// ---- validators over the production oracle (in-process RPC client, as portal/node.go wires it)
	hn.Val = history.NewHistoryValidator(validation.NewOracle(rpc.DialInProc(w.srv)))
	bn.Val = beacon.NewBeaconValidator(validation.NewOracle(rpc.DialInProc(w.srv)), configs.Mainnet)
	sn.Val = state.NewStateValidator(validation.NewOracle(rpc.DialInProc(w.srv)))
	hn.H = history.NewHistoryNetwork(hn.P, hn.Val)
	bn.B = beacon.NewBeaconNetwork(bn.P, lc, bn.Val)
	sn.S = state.NewStateNetwork(sn.P, sn.Val)

	if live {
		if err := hn.H.Start(); err != nil {
			return nil, err
		}
		if err := bn.B.Start(); err != nil {
			return nil, err
		}
		if err := sn.S.Start(); err != nil {
			return nil, err
		}
	} else {
		for _, n := range []*netw{hn, bn, sn} {
			if err := n.P.Start(); err != nil {
				return nil, err
			}
		}
	}
	w.started = true

	// ---- scripted peers
	for i, pv := range [][]uint8{{0, 1}, {0}, {2}} {
		rp, err := netsim.NewRawPeer(w.sw, fmt.Sprintf("10.0.0.%d", 2+i), uint16(9002+i), seededKey(rng))
		if err != nil {
			return nil, err
		}
		rp.LN.Set(enr.WithEntry("pv", pv))
		rp.LN.Set(portalwire.Tag)
		p := &peer{RawPeer: rp, name: fmt.Sprintf("peer%d", i), ver: []int{1, 0, 2}[i], script: map[string][]byte{}, lookup: map[string][]byte{}}
		for name, id := range protoOf {
			name, id := name, id
			rp.D5.RegisterTalkHandler(string(id), func(_ *enode.Node, _ *net.UDPAddr, msg []byte) []byte { return p.answer(name, msg) })
		}
		rp.D5.RegisterTalkHandler(string(portalwire.Utp), func(_ *enode.Node, _ *net.UDPAddr, msg []byte) []byte { return nil })
		w.peers = append(w.peers, p)
	}
	// a sender whose record has no address entries (sweep mutant E/26-C01: the connection id for a large answer was built from
	// the record's endpoint instead of the packet's source address)
	if rp, err := netsim.NewRawPeerNoIP(w.sw, "10.0.0.66", 9066, seededKey(rng)); err == nil {
		rp.LN.Set(enr.WithEntry("pv", []uint8{0, 1}))
		rp.LN.Set(portalwire.Tag)
		w.noip = &peer{RawPeer: rp, name: "noip", ver: 1, script: map[string][]byte{}, lookup: map[string][]byte{}}
		for name, id := range protoOf {
			name, id := name, id
			rp.D5.RegisterTalkHandler(string(id), func(_ *enode.Node, _ *net.UDPAddr, msg []byte) []byte { return w.noip.answer(name, msg) })
		}
		rp.D5.RegisterTalkHandler(string(portalwire.Utp), func(_ *enode.Node, _ *net.UDPAddr, msg []byte) []byte { return nil })
	}
	return w, nil
}

func (w *world) peerFor(ver int, alt int) *peer {
	switch ver {
	case 1:
		return w.peers[0]
	case 0:
		return w.peers[1]
	case 2:
		return w.peers[2]
	}
	return w.peers[alt%2]
}

func (w *world) close() {
	for _, n := range w.nets {
		n.P.Stop()
	}
	for _, p := range w.peers {
		p.Close()
	}
	if w.noip != nil {
		w.noip.Close()
	}
	w.d5.Close()
}

func (p *peer) udpAddr() *net.UDPAddr {
	return &net.UDPAddr{IP: p.Addr.Addr().AsSlice(), Port: int(p.Addr.Port())}
}

func (p *peer) setScript(proto string, code byte, reply []byte) {
	p.mu.Lock()
	p.script[fmt.Sprintf("%s/%d", proto, code)] = reply
	p.mu.Unlock()
}

func (p *peer) setLookup(proto string, content []byte) {
	p.mu.Lock()
	if content == nil {
		delete(p.lookup, proto)
	} else {
		p.lookup[proto] = content
	}
	p.mu.Unlock()
}

var maxRadius = func() []byte {
	b := make([]byte, 32)
	for i := range b {
		b[i] = 0xff
	}
	return b
}()

func validPong(seq uint64) []byte {
	pl, _ := pingext.NewClientInfoAndCapabilitiesPayload(maxRadius, []uint16{0, 1, 2, 65535}).MarshalSSZ()
	pong := &portalwire.Pong{EnrSeq: seq, PayloadType: pingext.ClientInfo, Payload: pl}
	b, _ := pong.MarshalSSZ()
	return append([]byte{portalwire.PONG}, b...)
}

// answer is the peer's talk handler: a scripted reply when one is pending for this message code, else a well-formed
// minimal answer (PONG; NODES with its own record for distance 0, else none; CONTENT with no closer nodes; ACCEPT declining).
func (p *peer) answer(proto string, msg []byte) []byte {
	p.mu.Lock()
	p.seen++
	if len(msg) > 0 {
		k := fmt.Sprintf("%s/%d", proto, msg[0])
		if r, ok := p.script[k]; ok {
			delete(p.script, k)
			p.mu.Unlock()
			if string(r) == "\x00silent" { // no answer before the asker's timeout
				time.Sleep(1500 * time.Millisecond)
				return nil
			}
			return r
		}
	}
	lk, haveLookup := p.lookup[proto]
	p.mu.Unlock()
	if len(msg) == 0 {
		return nil
	}
	switch msg[0] {
	case portalwire.PING:
		return validPong(p.Self().Seq())
	case portalwire.FINDNODES:
		fn := &portalwire.FindNodes{}
		nodes := &portalwire.Nodes{Total: 1}
		if fn.UnmarshalSSZ(msg[1:]) == nil {
			for _, d := range fn.Distances {
				if binary.LittleEndian.Uint16(d[:]) == 0 {
					if b, err := enrBytes(p.Self()); err == nil {
						nodes.Enrs = append(nodes.Enrs, b)
					}
				}
			}
		}
		b, _ := nodes.MarshalSSZ()
		return append([]byte{portalwire.NODES}, b...)
	case portalwire.FINDCONTENT:
		if haveLookup {
			return append([]byte{portalwire.CONTENT, portalwire.ContentRawSelector}, lk...)
		}
		b, _ := (&portalwire.Enrs{}).MarshalSSZ()
		return append([]byte{portalwire.CONTENT, portalwire.ContentEnrsSelector}, b...)
	case portalwire.OFFER:
		of := &portalwire.Offer{}
		n := 1
		if of.UnmarshalSSZ(msg[1:]) == nil {
			n = len(of.ContentKeys)
		}
		if p.ver == 0 {
			bits := make([]byte, n/8+1)
			bits[n/8] |= 1 << (uint(n) % 8)
			b, _ := (&portalwire.Accept{ConnectionId: []byte{0, 0}, ContentKeys: bits}).MarshalSSZ()
			return append([]byte{portalwire.ACCEPT}, b...)
		}
		codes := make([]uint8, n)
		for i := range codes {
			codes[i] = uint8(portalwire.GenericDeclined)
		}
		b, _ := (&portalwire.AcceptV1{ConnectionId: []byte{0, 0}, ContentKeys: codes}).MarshalSSZ()
		return append([]byte{portalwire.ACCEPT}, b...)
	}
	return nil
}

// seedWorld: the scripted peers are in the three routing tables (so content lookups have someone to ask and get an answer
// at once), and the history store holds the headers that the genuine body / receipts / state vectors are anchored in.
func (x *runner) seedWorld() error {
	w := x.w
	for _, n := range w.nets {
		for _, p := range w.peers {
			n.P.AddEnr(p.Self())
		}
	}
	hn := w.nets["history"]
	put := func(key, content []byte) {
		guard(func() callResult { return callResult{err: hn.Store.Put(key, hn.P.ToContentId(key), content)} })
	}
	heads := x.vs.heads
	for _, sel := range []int{1, 2} {
		for _, v := range x.vs.bySel["history"][sel] {
			if c, ok := heads[string(v.key[1:])]; ok && v.src != "100.yaml" {
				put(cat([]byte{0}, v.key[1:]), c)
			}
		}
	}
	for _, vs := range x.vs.bySel["state"] {
		for _, v := range vs {
			if len(v.header) == 0 {
				continue
			}
			hwp := &htypes.BlockHeaderWithProof{Header: v.header, Proof: []byte{}}
			b, err := hwp.MarshalSSZ()
			if err != nil {
				return err
			}
			put(cat([]byte{0}, crypto.Keccak256(v.header)), b)
		}
	}
	if x.live {
		att, err := netsim.NewNode(w.sw, netsim.NodeOpts{IP: "10.0.0.9", Port: 9009, MaxUtp: 16})
		if err != nil {
			return err
		}
		w.attacker = att
	}
	return nil
}
