// Package lookup drives the real iterative lookup (portalwire/lookup.go) and ContentLookup over a
// harness-owned peer graph. Every query blocks on a per-peer gate, so the order in which outstanding
// queries complete is the harness's (seeded or TLC-generated) decision. (C10)
package lookup

import (
	"bufio"
	"context"
	"encoding/json"
	"errors"
	"flag"
	"fmt"
	"math/rand"
	"net/netip"
	"os"
	"sort"
	"sync"
	"time"

	"net"

	"github.com/ethereum/go-ethereum/common/mclock"
	"github.com/ethereum/go-ethereum/p2p/enode"
	"github.com/ethereum/go-ethereum/p2p/enr"
	"github.com/zen-eth/shisui/portalwire"

	"verifharness/common"
	"verifharness/tracelog"
)

func init() { common.Register("lookup", Main) }

type fakeNet struct{ self *enode.Node }

func (t *fakeNet) Self() *enode.Node                             { return t.self }
func (t *fakeNet) RequestENR(n *enode.Node) (*enode.Node, error) { return n, nil }
func (t *fakeNet) Ping(n *enode.Node) (uint64, error)            { return n.Seq(), nil }
func (t *fakeNet) LookupRandom() []*enode.Node                   { return nil }
func (t *fakeNet) LookupSelf() []*enode.Node                     { return nil }

func mkNode(id enode.ID, i int) *enode.Node {
	var r enr.Record
	ip := netip.AddrFrom4([4]byte{10, byte(i >> 16), byte(i >> 8), byte(i)}) // LAN: no IP limits in the way
	r.Set(enr.IP(net.IP(ip.AsSlice())))
	r.Set(enr.UDP(30303))
	r.SetSeq(1)
	return enode.SignNull(&r, id)
}

// answer kinds of a peer
const (
	aClosest   = iota // honest: the peers closest to the target it knows (a random subset of the graph)
	aAll              // everyone it knows, including the asker and itself
	aSelfAsker        // only the local node and itself
	aDup              // duplicates of a few nodes
	aCycle            // its ring neighbours (cyclic references)
	aEmpty            // nothing
	aFail             // error
	aContent          // content variant: supplies content
	aNil              // not used (nil entries are outside the domain)
)

type scenario struct {
	t           int
	kind        string // "node" | "content"
	self        *enode.Node
	target      enode.ID
	nodes       []*enode.Node // index 0 = self
	idx         map[enode.ID]int
	rank        []int // rank[i] = position of node i in XOR-distance order to the target
	answers     [][]int
	akind       []int
	seed        []int   // indices put into the local table
	order       []int   // preferred completion order (TLC-generated schedules); empty = seeded random
	groups      [][]int // TLC-generated: replies delivered with no consumption in between (released together)
	burst       bool    // seeded: whenever several queries are outstanding, let them all complete at the same moment
	cancelAfter int     // cancel the context after this many completed queries (-1 = never)
	content     [][]byte
}

func buildScenario(rng *rand.Rand, t int, kind string, npeers int) *scenario {
	return buildScenarioD(rng, t, kind, npeers, false)
}

// dense: every peer differs from the target in its last two bytes only, so many peers share a log distance while their
// XOR distances differ - the order within the result list is then decided by the exact metric (seed C10-4)
func buildScenarioD(rng *rand.Rand, t int, kind string, npeers int, dense bool) *scenario {
	sc := &scenario{t: t, kind: kind, idx: map[enode.ID]int{}, cancelAfter: -1}
	var selfID enode.ID
	rng.Read(selfID[:])
	sc.self = mkNode(selfID, 0)
	sc.nodes = append(sc.nodes, sc.self)
	sc.idx[selfID] = 0
	rng.Read(sc.target[:])
	for i := 1; i <= npeers; i++ {
		var id enode.ID
		rng.Read(id[:])
		if dense {
			id = sc.target
			id[31] ^= byte(rng.Intn(256))
			id[30] ^= byte(rng.Intn(256))
			if id == sc.target {
				id[31] ^= 1
			}
		} else if rng.Intn(4) == 0 { // some peers very close to the target
			id = sc.target
			id[31] ^= byte(i)
			id[30] ^= byte(i >> 8)
			id[29] ^= 0x01
		}
		if _, dup := sc.idx[id]; dup {
			id[0] ^= 0xff
		}
		sc.idx[id] = len(sc.nodes)
		sc.nodes = append(sc.nodes, mkNode(id, i))
	}
	order := make([]int, len(sc.nodes))
	for i := range order {
		order[i] = i
	}
	sort.Slice(order, func(a, b int) bool {
		return enode.DistCmp(sc.target, sc.nodes[order[a]].ID(), sc.nodes[order[b]].ID()) < 0
	})
	sc.rank = make([]int, len(sc.nodes))
	for pos, i := range order {
		sc.rank[i] = pos
	}
	sc.answers = make([][]int, len(sc.nodes))
	sc.akind = make([]int, len(sc.nodes))
	sc.content = make([][]byte, len(sc.nodes))
	style := rng.Intn(4) // 0 honest network, 1 mixed, 2 adversarial, 3 sparse
	for i := 1; i <= npeers; i++ {
		k := aClosest
		switch style {
		case 1:
			k = []int{aClosest, aClosest, aAll, aDup, aCycle, aEmpty, aFail}[rng.Intn(7)]
		case 2:
			k = []int{aAll, aSelfAsker, aDup, aCycle, aEmpty, aFail}[rng.Intn(6)]
		case 3:
			k = []int{aClosest, aEmpty, aFail, aCycle}[rng.Intn(4)]
		}
		if kind == "content" && rng.Intn(6) == 0 {
			k = aContent
			sc.content[i] = make([]byte, 1+rng.Intn(64))
			if rng.Intn(4) == 0 {
				sc.content[i] = []byte{} // an empty value is content too
			}
			rng.Read(sc.content[i])
		}
		sc.akind[i] = k
		switch k {
		case aClosest:
			known := map[int]bool{}
			for j := 0; j < 3+rng.Intn(20) && j < npeers; j++ {
				known[1+rng.Intn(npeers)] = true
			}
			var ks []int
			for j := range known {
				ks = append(ks, j)
			}
			sort.Slice(ks, func(a, b int) bool { return sc.rank[ks[a]] < sc.rank[ks[b]] })
			if len(ks) > 16 {
				ks = ks[:16]
			}
			sc.answers[i] = ks
		case aAll:
			for j := 0; j <= npeers; j++ {
				sc.answers[i] = append(sc.answers[i], j)
			}
		case aSelfAsker:
			sc.answers[i] = []int{0, i, 0}
		case aDup:
			a := 1 + rng.Intn(npeers)
			b := 1 + rng.Intn(npeers)
			sc.answers[i] = []int{a, a, b, a, b, b, i}
		case aCycle:
			sc.answers[i] = []int{1 + i%npeers, 1 + (i+npeers-2)%npeers, i}
		}
	}
	// table seed
	if npeers > 0 && rng.Intn(12) > 0 {
		n := 1 + rng.Intn(4)
		for j := 0; j < n; j++ {
			sc.seed = append(sc.seed, 1+rng.Intn(npeers))
		}
	}
	if kind == "node" && rng.Intn(5) == 0 {
		sc.cancelAfter = rng.Intn(6)
	}
	sc.burst = npeers >= 3 && rng.Intn(3) == 0
	return sc
}

// a behaviour generated by TLC from Lookup.tla (simulate mode): the environment's choices only
type genCase struct {
	Peers   int   `json:"peers"`
	Seed    []int `json:"seed"`
	Holders []int `json:"holders"`
	Hist    []struct {
		Ev      string `json:"ev"`
		P       int    `json:"p"`
		Ans     []int  `json:"ans"`
		Content bool   `json:"content"`
	} `json:"hist"`
}

// scenarioFromCase concretises an abstract behaviour: abstract id i = the node with rank i (0 = the local
// node, which is the closest to the target, as in the model), each peer's answer and the completion order
// are the ones TLC chose.
func scenarioFromCase(rng *rand.Rand, t int, c genCase) *scenario {
	kind := "node"
	if len(c.Holders) > 0 {
		kind = "content"
	}
	sc := &scenario{t: t, kind: kind, idx: map[enode.ID]int{}, cancelAfter: -1}
	rng.Read(sc.target[:])
	mk := func(i int) enode.ID {
		id := sc.target
		if i == 0 {
			id[31] ^= 1
		} else {
			id[30] ^= byte(i)
		}
		return id
	}
	for i := 0; i <= c.Peers; i++ {
		n := mkNode(mk(i), i)
		sc.nodes = append(sc.nodes, n)
		sc.idx[n.ID()] = i
	}
	sc.self = sc.nodes[0]
	sc.rank = make([]int, c.Peers+1)
	for i := range sc.rank {
		sc.rank[i] = i
	}
	sc.answers = make([][]int, c.Peers+1)
	sc.akind = make([]int, c.Peers+1)
	sc.content = make([][]byte, c.Peers+1)
	for i := range sc.akind {
		sc.akind[i] = aEmpty
	}
	for _, h := range c.Holders {
		sc.akind[h] = aContent
		sc.content[h] = make([]byte, 1+rng.Intn(40))
		if rng.Intn(4) == 0 {
			sc.content[h] = []byte{} // an empty value is content too
		}
		rng.Read(sc.content[h])
	}
	replies := 0
	var group []int
	for _, h := range c.Hist {
		switch h.Ev {
		case "consume":
			// replies the model delivered since the last consumption sat in the channel together
			if len(group) > 1 {
				sc.groups = append(sc.groups, group)
			}
			group = nil
		case "reply":
			if !h.Content {
				sc.akind[h.P] = aAll // "explicit answer list"
				sc.answers[h.P] = h.Ans
			}
			sc.order = append(sc.order, h.P)
			group = append(group, h.P)
			replies++
		case "cancel":
			if kind == "node" && sc.cancelAfter < 0 {
				sc.cancelAfter = replies
			}
		}
	}
	sc.seed = c.Seed
	return sc
}

type qev struct {
	p     int
	start bool
}

func runScenario(w *tracelog.Writer, rng *rand.Rand, sc *scenario) error {
	vt, err := portalwire.VerifNewTable(&fakeNet{sc.self}, &mclock.Simulated{}, true, nil)
	if err != nil {
		return err
	}
	tabClosed := false
	closeTab := func() {
		if !tabClosed {
			tabClosed = true
			vt.Close(true)
		}
	}
	defer closeTab()
	seedSet := map[int]bool{}
	for _, i := range sc.seed {
		if vt.AddFoundLoop(sc.nodes[i]) {
			seedSet[i] = true
		}
	}
	var seedList []int
	for i := range seedSet {
		seedList = append(seedList, i)
	}
	sort.Ints(seedList)
	if seedList == nil {
		seedList = []int{}
	}
	kinds := make([]int, len(sc.akind))
	copy(kinds, sc.akind)
	w.Emit(map[string]any{"ev": "lk.init", "t": sc.t, "kind": sc.kind, "npeers": len(sc.nodes) - 1, "seed": seedList, "rank": sc.rank,
		"akind": kinds, "cancelAfter": sc.cancelAfter})

	var mu sync.Mutex
	gates := map[int]chan struct{}{}
	fat := map[int]int{}
	bursts := 0
	events := make(chan qev, 4096)
	pendingContent := map[int][]byte{}
	query := func(n *enode.Node) ([]*enode.Node, []byte, error) {
		i, ok := sc.idx[n.ID()]
		if !ok {
			i = -1
		}
		g := make(chan struct{})
		mu.Lock()
		gates[i] = g
		w.Emit(map[string]any{"ev": "q.start", "t": sc.t, "p": i})
		mu.Unlock()
		events <- qev{i, true}
		<-g
		var out []*enode.Node
		ans := []int{}
		mu.Lock()
		pad := fat[i]
		delete(fat, i)
		mu.Unlock()
		var err error
		var content []byte
		if i >= 0 {
			switch sc.akind[i] {
			case aFail:
				err = errors.New("RPC timeout")
			case aContent:
				content = sc.content[i]
			default:
				for _, j := range sc.answers[i] {
					out = append(out, sc.nodes[j])
					ans = append(ans, j)
				}
				// a "fat" answer repeats the answering peer's own record (already seen and asked, so it adds nothing)
				// many times: merging it keeps the lookup goroutine busy while the other released replies arrive
				for k := 0; k < pad; k++ {
					out = append(out, sc.nodes[i])
				}
				if pad > 0 {
					ans = append(ans, i)
				}
			}
		}
		mu.Lock()
		ev := map[string]any{"ev": "q.end", "t": sc.t, "p": i, "ans": ans, "err": err != nil, "content": content != nil, "ctag": 0, "clen": 0, "pad": pad}
		if content != nil {
			ev["ctag"], ev["clen"] = common.Tag(content), len(content)
			pendingContent[i] = content
		}
		w.Emit(ev)
		mu.Unlock()
		events <- qev{i, false}
		return out, content, err
	}

	ctx, cancel := context.WithCancel(context.Background())
	defer cancel()
	type outcome struct {
		res     []*enode.Node
		content []byte
		found   bool
	}
	done := make(chan outcome, 1)
	go func() {
		if sc.kind == "node" {
			res := portalwire.VerifRunLookup(ctx, vt, sc.target, func(n *enode.Node) ([]*enode.Node, error) {
				out, _, err := query(n)
				return out, err
			})
			mu.Lock()
			w.Emit(map[string]any{"ev": "lk.ret", "t": sc.t})
			mu.Unlock()
			done <- outcome{res: res}
			return
		}
		portalwire.VerifFindContentFunc = func(n *enode.Node, key []byte) (byte, interface{}, error) {
			out, content, err := query(n)
			if err != nil {
				return 0xff, nil, err
			}
			if content != nil {
				if len(content)%2 == 0 {
					return portalwire.ContentRawSelector, content, nil
				}
				return portalwire.ContentConnIdSelector, content, nil
			}
			return portalwire.ContentEnrsSelector, out, nil
		}
		pp := portalwire.VerifBareProtocol(vt)
		c, _, err := pp.ContentLookup([]byte{0x01, 0x02}, sc.target[:])
		portalwire.VerifFindContentFunc = nil
		mu.Lock()
		w.Emit(map[string]any{"ev": "lk.ret", "t": sc.t})
		mu.Unlock()
		done <- outcome{content: c, found: err == nil}
	}()

	// scheduler: wait until no new query has started for a grace period, then let one outstanding query complete
	grace := 1500 * time.Microsecond
	completed := 0
	cancelled := false
	orderPos := 0
	deadline := time.Now().Add(60 * time.Second)
	var res outcome
	finished := false
	for !finished {
		select {
		case res = <-done:
			finished = true
			continue
		case <-events:
			continue // something moved: restart the grace period
		case <-time.After(grace):
		}
		if time.Now().After(deadline) {
			w.Emit(map[string]any{"ev": "lk.hang", "t": sc.t})
			return nil
		}
		if sc.cancelAfter >= 0 && completed >= sc.cancelAfter && !cancelled {
			cancelled = true
			mu.Lock()
			w.Emit(map[string]any{"ev": "lk.cancel", "t": sc.t})
			mu.Unlock()
			cancel()
			if sc.t%24 == 5 {
				time.Sleep(700 * time.Millisecond) // stragglers: the queries still out answer long after the cancellation
			}
			continue
		}
		mu.Lock()
		var open []int
		for i := range gates {
			open = append(open, i)
		}
		sort.Ints(open)
		var pick = -2
		if len(open) > 0 {
			pick = open[rng.Intn(len(open))]
			for orderPos < len(sc.order) { // TLC-generated completion order, when given
				want := sc.order[orderPos]
				if _, ok := gates[want]; ok {
					pick = want
					orderPos++
					break
				}
				orderPos++
			}
			// replies that are to sit in the reply channel together: the picked one is made fat and released first,
			// the others follow while the lookup goroutine is still merging it
			var together []int
			if sc.burst && len(open) > 1 {
				for _, o := range open {
					if o != pick {
						together = append(together, o)
					}
				}
			}
			for _, grp := range sc.groups {
				if len(grp) > 1 && grp[0] == pick {
					for _, o := range grp[1:] {
						if _, ok := gates[o]; ok {
							together = append(together, o)
						}
					}
					// the replayed order has these replies consumed already
					for orderPos < len(sc.order) && contains(together, sc.order[orderPos]) {
						orderPos++
					}
					break
				}
			}
			g := gates[pick]
			delete(gates, pick)
			if len(together) > 0 {
				// with the table's loop stopped (as at shutdown) trackRequest returns at once, so the completing queries are
				// not serialised through the table loop on their way to the reply channel (measured: with the loop running
				// two replies are almost never in the channel together, the loop spaces them by one operation)
				closeTab()
			}
			if len(together) > 0 && pick >= 0 && sc.akind[pick] != aFail && sc.akind[pick] != aContent {
				fat[pick] = 150000
				bursts++
			}
			close(g)
			completed++
			if sc.t%24 == 5 && pick >= 0 && sc.akind[pick] == aContent && len(gates) > 0 {
				// stragglers: the content is found (the lookup cancels itself) while other queries stay out for long
				mu.Unlock()
				time.Sleep(700 * time.Millisecond)
				mu.Lock()
			}
			if len(together) > 0 {
				gs := make([]chan struct{}, 0, len(together))
				for _, o := range together {
					gs = append(gs, gates[o])
					delete(gates, o)
					completed++
				}
				mu.Unlock()
				time.Sleep(300 * time.Microsecond) // the fat reply reaches the lookup goroutine first
				for _, og := range gs {
					close(og)
				}
				mu.Lock()
			}
		}
		mu.Unlock()
		if pick == -2 {
			// nothing outstanding and the lookup has not returned: give it a little longer (table slowdown is 1 s)
			select {
			case res = <-done:
				finished = true
			case <-events:
			case <-time.After(1500 * time.Millisecond):
				w.Emit(map[string]any{"ev": "lk.hang", "t": sc.t})
				return nil
			}
		}
	}
	// release whatever is still gated (after cancellation / content found)
	mu.Lock()
	for i, g := range gates {
		close(g)
		delete(gates, i)
	}
	mu.Unlock()
	time.Sleep(grace)
	ev := map[string]any{"ev": "lk.done", "t": sc.t, "kind": sc.kind, "res": []int{}, "found": res.found, "ctag": 0, "clen": 0, "cancelled": cancelled,
		"bursts": bursts}
	if sc.kind == "node" {
		r := []int{}
		for _, n := range res.res {
			i, ok := sc.idx[n.ID()]
			if !ok {
				i = -1
			}
			r = append(r, i)
		}
		ev["res"] = r
	} else if res.found {
		ev["ctag"], ev["clen"] = common.Tag(res.content), len(res.content)
	}
	mu.Lock()
	w.Emit(ev)
	mu.Unlock()
	return nil
}

func contains(s []int, x int) bool {
	for _, y := range s {
		if y == x {
			return true
		}
	}
	return false
}

func Main(args []string) error {
	fs := flag.NewFlagSet("lookup", flag.ContinueOnError)
	out := fs.String("out", "trace.ndjson", "trace output")
	seed := fs.Int64("seed", 1, "seed")
	small := fs.Int("small", 100, "scenarios with 0..12 peers")
	big := fs.Int("big", 10, "scenarios with up to 200 peers")
	content := fs.Int("content", 60, "content-lookup scenarios")
	in := fs.String("in", "", "TLC-generated behaviours (ndjson), replayed before the seeded scenarios")
	if err := fs.Parse(args); err != nil {
		return err
	}
	w, err := tracelog.Create(*out)
	if err != nil {
		return err
	}
	defer w.Close()
	t := 0
	run := func(kind string, n int) error {
		rng := common.Rng(*seed*6700417 + int64(t))
		sc := buildScenario(rng, t, kind, n)
		t++
		return runScenario(w, rng, sc)
	}
	if *in != "" {
		f, err := os.Open(*in)
		if err != nil {
			return err
		}
		scn := bufio.NewScanner(f)
		scn.Buffer(make([]byte, 1<<20), 1<<26)
		for scn.Scan() {
			if len(scn.Bytes()) == 0 {
				continue
			}
			var c genCase
			if err := json.Unmarshal(scn.Bytes(), &c); err != nil {
				return err
			}
			r := common.Rng(*seed*31 + int64(t))
			sc := scenarioFromCase(r, t, c)
			t++
			w.Emit(map[string]any{"ev": "lk.case", "t": sc.t, "generated": true})
			if err := runScenario(w, r, sc); err != nil {
				return err
			}
		}
		f.Close()
	}
	rng := common.Rng(*seed)
	if err := run("node", 0); err != nil { // empty table, no peers: the code's 1 s slowdown path
		return err
	}
	for i := 0; i < *small; i++ {
		if err := run("node", rng.Intn(13)); err != nil {
			return err
		}
	}
	for i := 0; i < *big; i++ {
		if err := run("node", 20+rng.Intn(181)); err != nil {
			return err
		}
	}
	for i := 0; i < *big; i++ { // dense neighbourhoods: more than 16 peers per log distance
		rg := common.Rng(*seed*6700417 + int64(t))
		sc := buildScenarioD(rg, t, "node", 24+rng.Intn(60), true)
		sc.cancelAfter = -1
		t++
		if err := runScenario(w, rg, sc); err != nil {
			return err
		}
	}
	for i := 0; i < *content; i++ {
		n := 1 + rng.Intn(14)
		if i%10 == 9 {
			n = 40 + rng.Intn(100)
		}
		if err := run("content", n); err != nil {
			return err
		}
	}
	_ = fmt.Sprint
	return nil
}
