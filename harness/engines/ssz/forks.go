package ssz

import (
	"bytes"

	"github.com/protolambda/zrnt/eth2/beacon/altair"
	"github.com/protolambda/zrnt/eth2/beacon/capella"
	"github.com/protolambda/zrnt/eth2/beacon/common"
	"github.com/protolambda/zrnt/eth2/beacon/deneb"
	"github.com/protolambda/zrnt/eth2/beacon/electra"
	"github.com/protolambda/zrnt/eth2/configs"
	"github.com/protolambda/ztyp/codec"
	tbeacon "github.com/zen-eth/shisui/types/beacon"
)

// Synthetic vectors of the four forked beacon containers, one per fork digest: the bytes are the digest followed by
// the zrnt (dependency) encoding of that fork's own type - what a peer of that fork sends. The repository's wrappers
// must map every digest to the right type (sweep mutant G2/82-C14 mapped the Electra digest of the finality update to
// the Deneb type, whose finality branch is one node shorter); the repository's own vectors cover one fork each.
func serObj(o common.SpecObj) []byte {
	var buf bytes.Buffer
	if err := o.Serialize(configs.Mainnet, codec.NewEncodingWriter(&buf)); err != nil {
		panic(err)
	}
	return buf.Bytes()
}

func (e *eng) forkVectors() {
	sc := func() common.SyncCommittee { return common.SyncCommittee{Pubkeys: make([]common.BLSPubkey, 512)} }
	agg := func() altair.SyncAggregate {
		return altair.SyncAggregate{SyncCommitteeBits: altair.SyncCommitteeBits(make([]byte, 64))}
	}
	bh := func(s uint64) common.BeaconBlockHeader {
		return common.BeaconBlockHeader{Slot: common.Slot(s), ProposerIndex: 7}
	}
	type fv struct {
		name   string
		digest common.ForkDigest
		obj    common.SpecObj
		mk     func() any
	}
	boot := func() any { return &tbeacon.ForkedLightClientBootstrap{} }
	upd := func() any { return &tbeacon.ForkedLightClientUpdate{} }
	fin := func() any { return &tbeacon.ForkedLightClientFinalityUpdate{} }
	opt := func() any { return &tbeacon.ForkedLightClientOptimisticUpdate{} }
	ah := func(s uint64) altair.LightClientHeader { return altair.LightClientHeader{Beacon: bh(s)} }
	ch := func(s uint64) capella.LightClientHeader { return capella.LightClientHeader{Beacon: bh(s)} }
	dh := func(s uint64) deneb.LightClientHeader { return deneb.LightClientHeader{Beacon: bh(s)} }
	vs := []fv{
		{"Vec:ForkedLightClientBootstrap.bellatrix", tbeacon.Bellatrix, &altair.LightClientBootstrap{Header: ah(5), CurrentSyncCommittee: sc()}, boot},
		{"Vec:ForkedLightClientBootstrap.capella", tbeacon.Capella, &capella.LightClientBootstrap{Header: ch(5), CurrentSyncCommittee: sc()}, boot},
		{"Vec:ForkedLightClientBootstrap.deneb", tbeacon.Deneb, &deneb.LightClientBootstrap{Header: dh(5), CurrentSyncCommittee: sc()}, boot},
		{"Vec:ForkedLightClientBootstrap.electra", tbeacon.Electra, &electra.LightClientBootstrap{Header: dh(5), CurrentSyncCommittee: sc()}, boot},
		{"Vec:ForkedLightClientUpdate.bellatrix", tbeacon.Bellatrix, &altair.LightClientUpdate{AttestedHeader: ah(9), NextSyncCommittee: sc(), FinalizedHeader: ah(3), SyncAggregate: agg(), SignatureSlot: 10}, upd},
		{"Vec:ForkedLightClientUpdate.capella", tbeacon.Capella, &capella.LightClientUpdate{AttestedHeader: ch(9), NextSyncCommittee: sc(), FinalizedHeader: ch(3), SyncAggregate: agg(), SignatureSlot: 10}, upd},
		{"Vec:ForkedLightClientUpdate.deneb", tbeacon.Deneb, &deneb.LightClientUpdate{AttestedHeader: dh(9), NextSyncCommittee: sc(), FinalizedHeader: dh(3), SyncAggregate: agg(), SignatureSlot: 10}, upd},
		{"Vec:ForkedLightClientUpdate.electra", tbeacon.Electra, &electra.LightClientUpdate{AttestedHeader: dh(9), NextSyncCommittee: sc(), FinalizedHeader: dh(3), SyncAggregate: agg(), SignatureSlot: 10}, upd},
		{"Vec:ForkedLightClientFinalityUpdate.bellatrix", tbeacon.Bellatrix, &altair.LightClientFinalityUpdate{AttestedHeader: ah(9), FinalizedHeader: bh(3), SyncAggregate: agg(), SignatureSlot: 10}, fin},
		{"Vec:ForkedLightClientFinalityUpdate.capella", tbeacon.Capella, &capella.LightClientFinalityUpdate{AttestedHeader: ch(9), FinalizedHeader: ch(3), SyncAggregate: agg(), SignatureSlot: 10}, fin},
		{"Vec:ForkedLightClientFinalityUpdate.deneb", tbeacon.Deneb, &deneb.LightClientFinalityUpdate{AttestedHeader: dh(9), FinalizedHeader: dh(3), SyncAggregate: agg(), SignatureSlot: 10}, fin},
		{"Vec:ForkedLightClientFinalityUpdate.electra", tbeacon.Electra, &electra.LightClientFinalityUpdate{AttestedHeader: dh(9), FinalizedHeader: dh(3), SyncAggregate: agg(), SignatureSlot: 10}, fin},
		{"Vec:ForkedLightClientOptimisticUpdate.bellatrix", tbeacon.Bellatrix, &altair.LightClientOptimisticUpdate{AttestedHeader: ah(9), SyncAggregate: agg(), SignatureSlot: 10}, opt},
		{"Vec:ForkedLightClientOptimisticUpdate.capella", tbeacon.Capella, &capella.LightClientOptimisticUpdate{AttestedHeader: ch(9), SyncAggregate: agg(), SignatureSlot: 10}, opt},
		{"Vec:ForkedLightClientOptimisticUpdate.deneb", tbeacon.Deneb, &deneb.LightClientOptimisticUpdate{AttestedHeader: dh(9), SyncAggregate: agg(), SignatureSlot: 10}, opt},
		{"Vec:ForkedLightClientOptimisticUpdate.electra", tbeacon.Electra, &deneb.LightClientOptimisticUpdate{AttestedHeader: dh(9), SyncAggregate: agg(), SignatureSlot: 10}, opt},
	}
	for _, v := range vs {
		var b []byte
		if guard(func() { b = append(append([]byte{}, v.digest[:]...), serObj(v.obj)...) }) != "" || b == nil {
			continue
		}
		vf := vecFile{path: "(synthetic)", name: v.name, mk: v.mk}
		// pristine and truncated only: for the content containers the statement asks for the value round trip; (observed, outside
		// the statement: the four Bellatrix-digest containers, fixed-size altair types, decode with a trailing byte)
		e.vector(vf, "vector", b)
		e.vector(vf, "trunc", b[:len(b)-1])
	}
}
