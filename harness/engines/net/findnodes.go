package net

import (
	"crypto/ecdsa"
	"encoding/binary"
	"fmt"
	"math/rand"
	stdnet "net"
	"sync"
	"time"

	"github.com/ethereum/go-ethereum/p2p/enode"
	"github.com/ethereum/go-ethereum/p2p/enr"
	"github.com/ethereum/go-ethereum/p2p/netutil"
	"github.com/ethereum/go-ethereum/rlp"
	"github.com/zen-eth/shisui/portalwire"

	"verifharness/common"
	"verifharness/netsim"
	"verifharness/tracelog"
)

func classOf(ip stdnet.IP) string {
	switch {
	case ip.IsLoopback():
		return "loop"
	case netutil.IsLAN(ip):
		return "lan"
	}
	return "pub"
}

func ipOfClass(rng *rand.Rand, cls string, salt int) stdnet.IP {
	switch cls {
	case "loop":
		return stdnet.IP{127, 0, byte(1 + salt/200), byte(2 + salt%200)}
	case "lan":
		return stdnet.IP{10, 1, byte(1 + salt/200), byte(2 + salt%200)}
	}
	return stdnet.IP{byte(20 + salt%150), byte(1 + salt/150), byte(1 + rng.Intn(200)), byte(1 + rng.Intn(250))}
}

// nodeAtLd finds a key whose id has log distance ld (256, 255, ...) from base; only the top distances are
// reachable by brute force, lower ones fall back to whatever comes.
func nodeAtLd(rng *rand.Rand, base enode.ID, ld int, ip stdnet.IP, port, size int, seq uint64) *enode.Node {
	for tries := 0; ; tries++ {
		k := mustKey(rng)
		n := mkENR(rng, k, ip, port, 0, seq)
		if enode.LogDist(base, n.ID()) == ld || tries > 4000 {
			if size > 0 {
				n = mkENR(rng, k, ip, port, size, seq)
			}
			return n
		}
	}
}

func runFindNodes(w *tracelog.Writer, cases []map[string]any, seed int64, reps, workers int) error {
	type job struct {
		c   map[string]any
		rep int
	}
	var jobs []job
	for r := 0; r < reps; r++ {
		for _, c := range cases {
			jobs = append(jobs, job{c, r})
		}
	}
	nAsker := 12 * reps
	var mu sync.Mutex
	var firstErr error
	parallel(len(jobs)+nAsker, workers, func(i int) {
		var ev map[string]any
		var err error
		if i < len(jobs) {
			ev, err = findNodesResponder(jobs[i].c, seed*7368787+int64(i))
		} else {
			ev, err = findNodesAsker(seed*2750159+int64(i), i-len(jobs))
		}
		mu.Lock()
		defer mu.Unlock()
		if err != nil && firstErr == nil {
			firstErr = err
		}
		if ev != nil {
			ev["t"] = i
			w.Emit(ev)
		}
	})
	return firstErr
}

func findNodesResponder(c map[string]any, seed int64) (map[string]any, error) {
	rng := common.Rng(seed)
	sw := netsim.NewSwitch()
	selfCls, _ := c["self"].(string)
	askerCls, _ := c["asker"].(string)
	fill, _ := c["fill"].(string)
	dl, _ := c["dists"].(string)
	bip := ipOfClass(rng, selfCls, 1)
	B, err := netsim.NewNode(sw, netsim.NodeOpts{IP: bip.String(), Port: 9002, MaxUtp: 2})
	if err != nil {
		return nil, err
	}
	defer B.Stop()
	bid := B.P.Self().ID()
	idx := map[enode.ID]int{}
	vt := portalwire.VerifTableOf(B.P)
	add := func(n *enode.Node, live bool) {
		idx[n.ID()] = len(idx)
		if live {
			B.P.AddEnr(n)
		} else {
			vt.AddFoundLoop(n)
		}
	}
	classes := []string{"loop", "lan", "pub"}
	switch fill {
	case "liveAndUnverified":
		for i := 0; i < 14; i++ {
			ld := []int{256, 256, 255, 255, 254, 253}[i%6]
			n := nodeAtLd(rng, bid, ld, ipOfClass(rng, classes[i%3], 10+i), 30000+i, 0, 1)
			add(n, i%2 == 0)
		}
	case "movedAfterCheck":
		// entries that passed a liveness check and then changed their endpoint (a newer record from an inbound contact): their
		// credit stays above zero, their verified status is gone - they are not "liveness-checked" any more (sweep mutant G2/30-C11)
		for i := 0; i < 10; i++ {
			ld := []int{256, 256, 255, 254}[i%4]
			var k *ecdsa.PrivateKey
			for tries := 0; tries < 4000; tries++ {
				k = mustKey(rng)
				if enode.LogDist(bid, enode.PubkeyToIDV4(&k.PublicKey)) == ld {
					break
				}
			}
			n1 := mkENR(rng, k, ipOfClass(rng, "lan", 10+i), 30000+i, 0, 1)
			add(n1, true)
			if i%2 == 0 {
				n2 := mkENR(rng, k, ipOfClass(rng, "lan", 60+i), 33000+i, 0, 2)
				vt.AddInboundLoop(n2)
			}
		}
	case "fullTight":
		for i := 0; i < 16; i++ { // 231-byte records: five fit only if the message overhead is forgotten
			cls := "lan"
			if askerCls == "pub" || i%4 == 0 {
				cls = "pub"
			}
			add(nodeAtLd(rng, bid, 256, ipOfClass(rng, cls, 40+i), 31000+i, 231, 1), true)
		}
	case "fullMax":
		for i := 0; i < 16; i++ { // 16 maximum-size records in the bucket of distance 256
			cls := "lan"
			if askerCls == "pub" || i%4 == 0 {
				cls = "pub" // public addresses are limited to 2 per /24 and bucket: spread them
			}
			add(nodeAtLd(rng, bid, 256, ipOfClass(rng, cls, 40+i), 31000+i, 300, 1), true)
		}
		for i := 0; i < 6; i++ {
			add(nodeAtLd(rng, bid, 255, ipOfClass(rng, classes[i%3], 80+i), 32000+i, 0, 1), true)
		}
	}
	var dists []int
	switch dl {
	case "zero":
		dists = []int{0}
	case "d256":
		dists = []int{256}
	case "mix":
		dists = []int{0, 256, 255}
	case "repeat":
		dists = []int{256, 256, 255, 256}
	case "over":
		dists = []int{300, 257, 256, 65535}
	case "overonly": // invalid distances only: nothing is requested (sweep mutant G2/33-C11 clamped them to 256)
		dists = []int{300, 65535, 257}
	case "all":
		for d := 0; d <= 255; d++ { // 256 entries: the SSZ limit
			dists = append(dists, 256-d)
		}
	case "toolong":
		for d := 0; d <= 256; d++ {
			dists = append(dists, 256-d)
		}
	case "low":
		dists = []int{1, 100, 239, 240}
	}
	if dists == nil {
		dists = []int{}
	}
	asker, err := netsim.NewRawPeer(sw, ipOfClass(rng, askerCls, 7).String(), 9009, nil)
	if err != nil {
		return nil, err
	}
	defer asker.Close()
	// FindNodes SSZ: 4-byte offset, then 2 bytes (little-endian) per distance
	msg := []byte{portalwire.FINDNODES, 4, 0, 0, 0}
	for _, d := range dists {
		msg = binary.LittleEndian.AppendUint16(msg, uint16(d))
	}
	mark := sw.Mark()
	resp, err := asker.D5.TalkRequest(B.P.Self(), string(portalwire.History), msg)
	ev := map[string]any{"ev": "fn.responder", "case": c, "dists": dists, "reqvalid": len(dists) <= 256, "decoded": false, "total": 0, "enrs": []map[string]any{},
		"table": []map[string]any{}, "asker": askerCls, "self": selfCls, "maxdg": 0, "detail": ""}
	maxdg := 0
	for _, d := range sw.Since(mark) {
		if d.From == B.Addr && d.Size > maxdg {
			maxdg = d.Size
		}
	}
	ev["maxdg"] = maxdg
	if err != nil { // no reply reached the asker (never a verdict by itself); what went over the wire is still judged for size
		ev["ev"], ev["detail"] = "fn.noreply", err.Error()
		return ev, nil
	}
	if len(resp) > 0 && resp[0] == portalwire.NODES {
		nodes := &portalwire.Nodes{}
		if err := nodes.UnmarshalSSZ(resp[1:]); err == nil {
			ev["decoded"], ev["total"] = true, int(nodes.Total)
			el := []map[string]any{}
			for _, raw := range nodes.Enrs {
				var r enr.Record
				e := map[string]any{"i": -1, "ld": 0, "cls": "pub", "size": len(raw), "valid": false}
				if err := rlp.DecodeBytes(raw, &r); err == nil {
					if n, err := enode.New(enode.ValidSchemes, &r); err == nil {
						e["valid"], e["ld"], e["cls"] = true, enode.LogDist(bid, n.ID()), classOf(n.IP())
						if i, ok := idx[n.ID()]; ok {
							e["i"] = i
						} else if n.ID() == bid {
							e["i"] = -2
						}
					}
				}
				el = append(el, e)
			}
			ev["enrs"] = el
		} else {
			ev["detail"] = "undecodable NODES: " + err.Error()
		}
	} else {
		ev["detail"] = fmt.Sprintf("reply %x", resp)
	}
	tab := []map[string]any{}
	for _, b := range vt.Snapshot() {
		for _, n := range b.Entries {
			if i, ok := idx[n.ID]; ok {
				tab = append(tab, map[string]any{"i": i, "ld": enode.LogDist(bid, n.ID), "live": n.Live, "cls": classOf(stdnet.IP(n.IP.AsSlice()))})
			}
		}
	}
	ev["table"] = tab
	return ev, nil
}

// findNodesAsker: a real node asks a scripted responder that returns a NODES reply in which every record
// is labelled with the acceptance rules it satisfies.
func findNodesAsker(seed int64, variant int) (map[string]any, error) {
	rng := common.Rng(seed)
	sw := netsim.NewSwitch()
	respCls := []string{"lan", "pub", "loop"}[variant%3]
	askCls := []string{"lan", "pub", "lan", "loop"}[variant%4]
	A, err := netsim.NewNode(sw, netsim.NodeOpts{IP: ipOfClass(rng, askCls, 3).String(), Port: 9001, MaxUtp: 2})
	if err != nil {
		return nil, err
	}
	defer A.Stop()
	R, err := netsim.NewRawPeer(sw, ipOfClass(rng, respCls, 5).String(), 9005, nil)
	if err != nil {
		return nil, err
	}
	defer R.Close()
	rid, aid := R.Self().ID(), A.P.Self().ID()
	// the empty (non-nil) list: nothing is requested, so no record of the reply may be used (sweep mutant E/12-C11)
	dists := [][]uint{{256}, {255, 254}, {256, 255, 254}, {0, 256}, {}}[variant%5]
	inReq := func(ld int) bool {
		for _, d := range dists {
			if int(d) == ld {
				return true
			}
		}
		return false
	}
	type rec struct {
		raw  []byte
		meta map[string]any
	}
	var recs []rec
	addRec := func(n *enode.Node, sigok, decodable bool, dup bool, mut func([]byte) []byte) {
		raw, _ := rlp.EncodeToBytes(n.Record())
		if mut != nil {
			raw = mut(raw)
		}
		recs = append(recs, rec{raw, map[string]any{"n": len(recs), "sigok": sigok, "decodable": decodable, "ld": enode.LogDist(rid, n.ID()), "dup": dup,
			"port": n.UDP(), "cls": classOf(n.IP()), "ldAsker": enode.LogDist(aid, n.ID())}})
	}
	classes := []string{"lan", "pub", "loop"}
	var good []*enode.Node
	for i := 0; i < 9; i++ { // records at the top distances from the responder, all address classes, ports around the limit
		ld := []int{256, 255, 254}[i%3]
		port := []int{30303, 1025, 1024, 80, 9000}[rng.Intn(5)]
		n := nodeAtLd(rng, rid, ld, ipOfClass(rng, classes[(i/3)%3], 100+i), port, 0, 1)
		good = append(good, n)
		addRec(n, true, true, false, nil)
	}
	// at a requested distance from the ASKER but not from the responder
	for i := 0; i < 3; i++ {
		for tries := 0; tries < 3000; tries++ {
			n := mkENR(rng, nil, ipOfClass(rng, "lan", 130+i), 30303, 0, 1)
			if inReq(enode.LogDist(aid, n.ID())) && !inReq(enode.LogDist(rid, n.ID())) {
				addRec(n, true, true, false, nil)
				break
			}
		}
	}
	// a repeat of an earlier record
	addRec(good[0], true, true, true, nil)
	addRec(good[1], true, true, true, nil)
	// no signature at all: the "null" identity scheme go-ethereum keeps for its own tests (sweep mutant G2/37-C11 admitted it)
	{
		var r enr.Record
		r.Set(enr.IP(ipOfClass(rng, "lan", 145)))
		r.Set(enr.UDP(30303))
		r.SetSeq(1)
		var nid enode.ID
		for tries := 0; tries < 4000; tries++ {
			rng.Read(nid[:])
			if inReq(enode.LogDist(rid, nid)) {
				break
			}
		}
		addRec(enode.SignNull(&r, nid), false, true, false, nil)
	}
	// signature broken: one byte of the signed content changed after signing
	addRec(nodeAtLd(rng, rid, 256, ipOfClass(rng, "lan", 140), 30303, 0, 1), false, true, false, func(b []byte) []byte {
		c := append([]byte(nil), b...)
		c[len(c)-3] ^= 0x01 // inside the last value (the udp port or the key), the list structure stays intact
		return c
	})
	// not RLP at all / truncated
	addRec(good[2], true, false, false, func(b []byte) []byte { return b[:len(b)/2] })
	addRec(good[2], true, false, false, func(b []byte) []byte { return []byte{0xc1} })
	// the responder's own record at distance 0
	addRec(R.Self(), true, true, false, nil)
	// order: a few good records, their repeats, then the records that break one rule each (rotating with the
	// variant so that every kind gets into the single packet over the scenarios), then the remaining good ones
	var goods, dups, specials []rec
	for _, r := range recs {
		switch {
		case r.meta["dup"] == true:
			dups = append(dups, r)
		case r.meta["sigok"] == false || r.meta["decodable"] == false || r.meta["ld"] == 0 || !inReq(r.meta["ld"].(int)):
			specials = append(specials, r)
		default:
			goods = append(goods, r)
		}
	}
	if len(specials) > 0 {
		k := variant % len(specials)
		specials = append(specials[k:], specials[:k]...)
	}
	recs = nil
	recs = append(recs, goods[:min(2, len(goods))]...)
	recs = append(recs, dups...)
	recs = append(recs, specials[:min(3, len(specials))]...)
	if len(goods) > 2 {
		recs = append(recs, goods[2:]...)
	}
	// pack as many as fit into one reply
	var enrs [][]byte
	var metas []map[string]any
	budget := 1100
	for _, r := range recs {
		if budget-len(r.raw)-4 < 0 {
			continue
		}
		budget -= len(r.raw) + 4
		enrs = append(enrs, r.raw)
		metas = append(metas, r.meta)
	}
	nodesMsg := &portalwire.Nodes{Total: 1, Enrs: enrs}
	nb, err := nodesMsg.MarshalSSZ()
	if err != nil {
		return nil, err
	}
	R.D5.RegisterTalkHandler(string(portalwire.History), func(id *enode.Node, addr *stdnet.UDPAddr, msg []byte) []byte {
		return append([]byte{portalwire.NODES}, nb...)
	})
	type out struct {
		kept []*enode.Node
		err  error
	}
	done := make(chan out, 1)
	go func() {
		k, err := portalwire.VerifFindNodes(A.P, R.Self(), dists)
		done <- out{k, err}
	}()
	var o out
	select {
	case o = <-done:
	case <-time.After(10 * time.Second):
		return map[string]any{"ev": "fn.noobs", "detail": "asker: no result"}, nil
	}
	dl := []int{}
	for _, d := range dists {
		dl = append(dl, int(d))
	}
	ev := map[string]any{"ev": "fn.asker", "dists": dl, "responder": respCls, "recs": metas, "kept": []int{}, "detail": ""}
	if o.err != nil {
		ev["detail"] = o.err.Error()
	}
	kept := []int{}
	for _, n := range o.kept {
		raw, _ := rlp.EncodeToBytes(n.Record())
		found := -1
		for j, e := range enrs {
			if string(e) == string(raw) && metas[j]["dup"] != true {
				found = metas[j]["n"].(int)
			}
		}
		kept = append(kept, found)
	}
	ev["kept"] = kept
	return ev, nil
}
