package net

import (
	"crypto/sha256"
	"fmt"
	"math/rand"
	stdnet "net"
	"sync"
	"time"

	"github.com/ethereum/go-ethereum/p2p/enode"
	"github.com/ethereum/go-ethereum/p2p/enr"
	"github.com/holiman/uint256"
	"github.com/zen-eth/shisui/portalwire"
	pingext "github.com/zen-eth/shisui/portalwire/ping_ext"

	"verifharness/common"
	"verifharness/netsim"
	"verifharness/tracelog"
)

// C20: a real node whose table is filled with scripted discv5 peers (which report radii in pings and pongs of
// every payload type) and with unreachable records added through AddEnr; then GossipAndReturnPeers.

var eventMu sync.Mutex
var pingGateMu sync.Mutex
var pingGate = map[enode.ID]chan struct{}{}
var pingDone = map[*portalwire.PortalProtocol]chan struct{}{} // not keyed per node by the hook: one scenario at a time uses it

func runGossip(w *tracelog.Writer, seed int64, scenarios int) error {
	// processPing runs asynchronously; its completion event lets deliveries be strictly sequential
	done := make(chan enode.ID, 1024)
	portalwire.VerifEvent = func(name string, arg interface{}) {
		switch name {
		case "processPing.done":
			done <- arg.(enode.ID)
		case "processPing.start":
			// forced interleaving: the processing of one ping is held back while a later ping of the same node goes through
			pingGateMu.Lock()
			g := pingGate[arg.(enode.ID)]
			delete(pingGate, arg.(enode.ID))
			pingGateMu.Unlock()
			if g != nil {
				select {
				case <-g:
				case <-time.After(10 * time.Second):
				}
			}
		}
	}
	defer func() { portalwire.VerifEvent = nil }()
	for t := 0; t < scenarios; t++ {
		if err := gossipScenario(w, t, seed*1299709+int64(t), done); err != nil {
			return err
		}
	}
	return nil
}

func radiusLE(r *uint256.Int) []byte { b, _ := r.MarshalSSZ(); return b }
func beInts(le []byte) []int {
	out := make([]int, 32)
	for i := 0; i < 32 && i < len(le); i++ {
		out[31-i] = int(le[i])
	}
	return out
}

func gossipScenario(w *tracelog.Writer, t int, seed int64, done chan enode.ID) error {
	rng := common.Rng(seed)
	sw := netsim.NewSwitch()
	proto := []portalwire.ProtocolId{portalwire.History, portalwire.State, portalwire.Beacon}[t%3]
	pname := []string{"history", "state", "beacon"}[t%3]
	B, err := netsim.NewNode(sw, netsim.NodeOpts{IP: "10.0.0.2", Port: 9002, MaxUtp: 64, Protocol: proto})
	if err != nil {
		return err
	}
	defer B.Stop()
	bid := B.P.Self().ID()
	supported := map[uint16]bool{pingext.ClientInfo: true, pingext.Error: true}
	if pname == "history" {
		supported[pingext.HistoryRadius] = true
	} else {
		supported[pingext.BasicRadius] = true
	}
	w.Emit(map[string]any{"ev": "g.init", "t": t, "network": pname})
	key := make([]byte, 1+rng.Intn(40))
	rng.Read(key)
	cid := sha256.Sum256(key)

	type peer struct {
		raw  *netsim.RawPeer
		node *enode.Node
		pong struct {
			typ     uint16
			payload []byte
			seq     uint64
		}
	}
	var peers []*peer
	idx := map[enode.ID]int{}
	nraw := []int{0, 3, 12, 30, 45}[rng.Intn(5)]
	nnull := []int{0, 0, 5, 40, 230}[rng.Intn(5)]
	if t == 0 {
		nraw, nnull = 0, 0
	}
	var pmu sync.Mutex
	for i := 0; i < nraw; i++ {
		rp, err := netsim.NewRawPeer(sw, fmt.Sprintf("10.2.%d.%d", 1+i/200, 1+i%200), 9100, nil)
		if err != nil {
			return err
		}
		defer rp.Close()
		p := &peer{raw: rp, node: rp.Self()}
		idx[p.node.ID()] = len(peers)
		peers = append(peers, p)
		rp.D5.RegisterTalkHandler(string(proto), func(id *enode.Node, addr *stdnet.UDPAddr, msg []byte) []byte {
			if len(msg) == 0 || msg[0] != portalwire.PING {
				return nil // offers and everything else: empty reply
			}
			pmu.Lock()
			typ, payload := p.pong.typ, p.pong.payload
			pmu.Unlock()
			pmu.Lock()
			pseq := p.pong.seq
			pmu.Unlock()
			pong := &portalwire.Pong{EnrSeq: pseq, PayloadType: typ, Payload: payload}
			b, err := pong.MarshalSSZ()
			if err != nil {
				return nil
			}
			return append([]byte{portalwire.PONG}, b...)
		})
	}
	// unreachable records in chosen distance classes (they fill the lower buckets), radius = maximum through AddEnr
	for i := 0; i < nnull; i++ {
		ld := 256 - rng.Intn(17)
		if rng.Intn(3) == 0 {
			ld = 1 + rng.Intn(240)
		}
		var d enode.ID
		rng.Read(d[:])
		top := 256 - ld
		for j := 0; j < top/8; j++ {
			d[j] = 0
		}
		if top < 256 {
			d[top/8] &= 0xff >> uint(top%8)
			d[top/8] |= 0x80 >> uint(top%8)
		}
		var id enode.ID
		for j := range id {
			id[j] = bid[j] ^ d[j]
		}
		var r enr.Record
		r.Set(enr.IP(stdnet.IP{10, 9, byte(i / 250), byte(1 + i%250)}))
		r.Set(enr.UDP(30000 + i))
		r.SetSeq(1)
		n := enode.SignNull(&r, id)
		if _, dup := idx[n.ID()]; dup {
			continue
		}
		idx[n.ID()] = len(peers)
		peers = append(peers, &peer{node: n})
	}
	vt := portalwire.VerifTableOf(B.P)
	inTable := func(id enode.ID) bool {
		for _, b := range vt.Snapshot() {
			for _, n := range b.Entries {
				if n.ID == id {
					return true
				}
			}
			for _, n := range b.Replacements {
				if n.ID == id {
					return true
				}
			}
		}
		return false
	}
	mkRadius := func() *uint256.Int {
		switch rng.Intn(7) {
		case 0:
			return uint256.NewInt(0)
		case 1:
			return uint256.NewInt(uint64(200 + rng.Intn(60)))
		case 2:
			return uint256.NewInt(uint64(enode.LogDist(bid, enode.ID(cid)))) // around the boundary
		case 3:
			return uint256.NewInt(256)
		case 4:
			return uint256.NewInt(257)
		default:
			return uint256.MustFromHex("0xffffffffffffffffffffffffffffffffffffffffffffffffffffffffffffffff")
		}
	}
	mkPayload := func(typ uint16, r *uint256.Int, broken bool) []byte {
		var b []byte
		switch typ {
		case pingext.ClientInfo:
			pl := pingext.NewClientInfoAndCapabilitiesPayload(radiusLE(r), []uint16{0, 1, 2, 65535})
			b, _ = pl.MarshalSSZ()
		case pingext.BasicRadius:
			pl := pingext.NewBasicRadiusPayload(radiusLE(r))
			b, _ = pl.MarshalSSZ()
		case pingext.HistoryRadius:
			pl := pingext.NewHistoryRadiusPayload(radiusLE(r), uint16(rng.Intn(100)))
			b, _ = pl.MarshalSSZ()
		case pingext.Error:
			b = pingext.GetErrorPayloadBytes(pingext.ErrorSystemError)
		default:
			b = radiusLE(r)
		}
		if broken && len(b) > 3 {
			b = b[:len(b)-3]
		}
		return b
	}
	// AddEnr for the unreachable records and for some of the real peers
	for _, p := range peers {
		if p.raw == nil || rng.Intn(3) == 0 {
			was := isEntry(vt, p.node.ID())
			B.P.AddEnr(p.node)
			w.Emit(map[string]any{"ev": "g.deliver", "t": t, "n": idx[p.node.ID()], "via": "addenr", "type": -1, "supported": true, "decodable": true,
				"radius": beInts(portalwire.MaxDistance), "intable": inTable(p.node.ID()), "isentry": isEntry(vt, p.node.ID()),
				"newentry": !was && isEntry(vt, p.node.ID())})
		}
	}
	// pings and pongs in a random interleaving
	types := []uint16{pingext.ClientInfo, pingext.BasicRadius, pingext.HistoryRadius, pingext.Error, 7}
	var raws []*peer
	for _, p := range peers {
		if p.raw != nil {
			raws = append(raws, p)
		}
	}
	for k := 0; k < len(raws)*3; k++ {
		p := raws[rng.Intn(len(raws))]
		typ := types[rng.Intn(len(types))]
		if rng.Intn(2) == 0 { // mostly the types this network supports
			for ty := range supported {
				if ty != pingext.Error {
					typ = ty
				}
			}
		}
		r := mkRadius()
		broken := rng.Intn(12) == 0
		payload := mkPayload(typ, r, broken)
		ev := map[string]any{"ev": "g.deliver", "t": t, "n": idx[p.node.ID()], "type": int(typ), "supported": supported[typ] && typ != pingext.Error,
			"decodable": !broken, "radius": beInts(radiusLE(r))}
		if rng.Intn(2) == 0 {
			ev["via"] = "ping"
			// a third of the pings announce a record sequence number above the one the node holds: the node then asks the peer
			// for its record first (FINDNODES [0]), which these peers answer with an empty reply - the refresh fails, the
			// radius of the ping counts all the same (sweep mutant C/29-C20)
			seq := uint64(1)
			if rng.Intn(3) == 0 {
				seq = 1<<62 + uint64(rng.Intn(1000))
				ev["seqhigh"] = true
			}
			ping := &portalwire.Ping{EnrSeq: seq, PayloadType: typ, Payload: payload}
			pb, _ := ping.MarshalSSZ()
			for len(done) > 0 {
				<-done
			}
			_, err := p.raw.D5.TalkRequest(B.P.Self(), string(proto), append([]byte{portalwire.PING}, pb...))
			if err != nil {
				continue
			}
			// wait for the asynchronous processing of this ping (only started for decodable, supported radius types)
			if supported[typ] && typ != pingext.Error && !broken {
				select {
				case <-done:
				case <-time.After(2 * time.Second):
				}
			}
		} else {
			ev["via"] = "pong"
			// also nodes that are not in the table yet (portal_*Ping to an arbitrary record): the pong adds the node, and the
			// radius it reports counts like any other ("intable" is read after the delivery)
			ev["fresh"] = !inTable(p.node.ID())
			pmu.Lock()
			p.pong.typ, p.pong.payload = typ, payload
			p.pong.seq = 1
			if rng.Intn(3) == 0 { // the same with a pong
				p.pong.seq = 1<<62 + uint64(rng.Intn(1000))
				ev["seqhigh"] = true
			}
			pmu.Unlock()
			portalwire.VerifPing(B.P, p.node)
		}
		ev["intable"], ev["isentry"], ev["newentry"] = inTable(p.node.ID()), isEntry(vt, p.node.ID()), false
		w.Emit(ev)
	}
	// two pings of one node in quick succession: each is processed in its own goroutine, the first one is held back
	if t%3 == 2 && len(raws) > 0 {
		var p *peer
		for _, c := range raws {
			if isEntry(vt, c.node.ID()) {
				p = c
			}
		}
		if p != nil {
			var typ uint16 = pingext.ClientInfo
			r1, r2 := uint256.NewInt(uint64(100+rng.Intn(50))), uint256.NewInt(uint64(300+rng.Intn(50)))
			send := func(r *uint256.Int) bool {
				ping := &portalwire.Ping{EnrSeq: 1, PayloadType: typ, Payload: mkPayload(typ, r, false)}
				pb, _ := ping.MarshalSSZ()
				_, err := p.raw.D5.TalkRequest(B.P.Self(), string(proto), append([]byte{portalwire.PING}, pb...))
				return err == nil
			}
			for len(done) > 0 {
				<-done
			}
			g := make(chan struct{})
			pingGateMu.Lock()
			pingGate[p.node.ID()] = g
			pingGateMu.Unlock()
			ok1 := send(r1) // answered at once; its processing goroutine waits at the gate
			ok2 := send(r2)
			if ok2 {
				select { // the second ping is processed completely
				case <-done:
				case <-time.After(2 * time.Second):
				}
			}
			close(g)
			if ok1 {
				select {
				case <-done:
				case <-time.After(2 * time.Second):
				}
			}
			for i, r := range []*uint256.Int{r1, r2} {
				if (i == 0 && ok1) || (i == 1 && ok2) {
					w.Emit(map[string]any{"ev": "g.deliver", "t": t, "n": idx[p.node.ID()], "type": int(typ), "supported": true, "decodable": true,
						"radius": beInts(radiusLE(r)), "via": "ping", "intable": true, "isentry": true, "newentry": false, "race": true})
				}
			}
		}
	}
	for k := 0; k < len(raws)/3; k++ { // AddEnr for nodes that are entries already: the radius they reported stays
		p := raws[rng.Intn(len(raws))]
		was := isEntry(vt, p.node.ID())
		B.P.AddEnr(p.node)
		w.Emit(map[string]any{"ev": "g.deliver", "t": t, "n": idx[p.node.ID()], "via": "addenr", "type": -1, "supported": true, "decodable": true,
			"radius": beInts(portalwire.MaxDistance), "intable": inTable(p.node.ID()), "isentry": isEntry(vt, p.node.ID()),
			"newentry": !was && isEntry(vt, p.node.ID())})
	}
	// gossip calls: source absent, in the table, not in the table
	promoted := 0
	for g := 0; g < 12; g++ {
		var src *enode.ID
		srcIdx := -1
		switch g % 3 {
		case 1:
			if len(peers) > 0 {
				id := peers[rng.Intn(len(peers))].node.ID()
				src, srcIdx = &id, idx[id]
			}
		case 2:
			var id enode.ID
			rng.Read(id[:])
			src, srcIdx = &id, -2
		}
		if g == 3 {
			// entries of buckets that have replacements are deleted: replacements move up and become gossip candidates - the
			// radius they reported while they were waiting counts (sweep mutant G3/57-C20 recorded pongs of entries only)
			for _, b := range vt.Snapshot() {
				for k := 0; k < len(b.Replacements) && k < 4 && k < len(b.Entries); k++ {
					if i, ok := idx[b.Entries[k].ID]; ok {
						vt.Delete(peers[i].node)
						promoted++
					}
				}
			}
		}
		if g >= 3 && g%3 == 0 { // another content id for every three calls
			rng.Read(key)
			cid = sha256.Sum256(key)
		}
		res, err := B.P.GossipAndReturnPeers(src, [][]byte{key}, [][]byte{{1, 2, 3}})
		tab := []map[string]any{}
		for _, b := range vt.Snapshot() {
			for _, n := range b.Entries {
				i, ok := idx[n.ID]
				if !ok {
					i = -1
				}
				rb, known := portalwire.VerifRadiusCacheGet(B.P, n.ID)
				e := map[string]any{"i": i, "ld": enode.LogDist(n.ID, enode.ID(cid)), "known": known, "radius": beInts(rb)}
				tab = append(tab, e)
			}
		}
		rl := []int{}
		for _, n := range res {
			i, ok := idx[n.ID()]
			if !ok {
				i = -1
			}
			rl = append(rl, i)
		}
		w.Emit(map[string]any{"ev": "g.gossip", "t": t, "src": srcIdx, "table": tab, "res": rl, "err": err != nil, "queued": portalwire.VerifOfferQueueLen(B.P), "promoted": promoted})
	}
	_ = rand.Int
	return nil
}

func isEntry(vt *portalwire.VerifTable, id enode.ID) bool {
	for _, b := range vt.Snapshot() {
		for _, n := range b.Entries {
			if n.ID == id {
				return true
			}
		}
	}
	return false
}
