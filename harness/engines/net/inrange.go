package net

import (
	"fmt"
	"math/rand"
	stdnet "net"
	"sync"

	"github.com/ethereum/go-ethereum/common/hexutil"
	"github.com/ethereum/go-ethereum/p2p/enode"
	"github.com/holiman/uint256"
	"github.com/zen-eth/shisui/portalwire"
	pingext "github.com/zen-eth/shisui/portalwire/ping_ext"

	"verifharness/common"
	"verifharness/netsim"
	"verifharness/tracelog"
)

// runInRange feeds (node id, radius, content id) triples to the in-range helper behind offer filtering, the
// store RPC and gossip target selection, and to PortalProtocol.InRange of a real node (C06).
func runInRange(w *tracelog.Writer, seed int64, n int) error {
	rng := common.Rng(seed)
	radii := func() *uint256.Int {
		switch rng.Intn(12) {
		case 0:
			return uint256.NewInt(0)
		case 1:
			return uint256.NewInt(1)
		case 2:
			return uint256.NewInt(uint64(rng.Intn(512)))
		case 3:
			return uint256.NewInt(256)
		case 4:
			return uint256.NewInt(511)
		case 5:
			return uint256.NewInt(512)
		case 6:
			return new(uint256.Int).Lsh(uint256.NewInt(1), 255)
		case 7:
			return uint256.MustFromHex("0xffffffffffffffffffffffffffffffffffffffffffffffffffffffffffffffff")
		case 8:
			return new(uint256.Int).Lsh(uint256.NewInt(1), uint(rng.Intn(256)))
		default:
			var b [32]byte
			rng.Read(b[:])
			for i := 0; i < rng.Intn(32); i++ {
				b[i] = 0
			}
			return new(uint256.Int).SetBytes(b[:])
		}
	}
	emit := func(via string, node enode.ID, r *uint256.Int, id []byte, res bool) {
		rb := r.Bytes32()
		w.Emit(map[string]any{"ev": "inrange", "via": via, "node": tracelog.Ints(node[:]), "radius": tracelog.Ints(rb[:]), "id": tracelog.Ints(id), "res": res})
	}
	triple := func(node enode.ID, r *uint256.Int, rr *rand.Rand) []byte {
		id := make([]byte, 32)
		switch rr.Intn(5) {
		case 0: // uniformly random id
			rr.Read(id)
		default: // distance exactly r-1, r, r+1 (mod 2^256) or a near miss in one byte
			d := new(uint256.Int).Set(r)
			switch rr.Intn(4) {
			case 0:
				d.SubUint64(d, 1)
			case 1:
			case 2:
				d.AddUint64(d, 1)
			case 3:
				d.Rsh(d, uint(rr.Intn(9)))
			}
			db := d.Bytes32()
			for i := range id {
				id[i] = node[i] ^ db[i]
			}
		}
		return id
	}
	for i := 0; i < n; i++ {
		var node enode.ID
		rng.Read(node[:])
		r := radii()
		id := triple(node, r, rng)
		emit("helper", node, r, id, portalwire.VerifInRange(node, r, id))
	}
	// a real node: PortalProtocol.InRange with the radius its store advertises
	sw := netsim.NewSwitch()
	st := &netsim.RadiusStore{}
	nd, err := netsim.NewNode(sw, netsim.NodeOpts{IP: "10.0.0.1", Port: 9001, MaxUtp: 2, Store: st})
	if err != nil {
		return err
	}
	defer nd.Stop()
	inner, err := netsim.NewMemStore(nd.P.Self().ID(), 10)
	if err != nil {
		return err
	}
	st.ContentStorage = inner
	for i := 0; i < n/10+20; i++ {
		r := radii()
		st.SetRadius(r)
		id := triple(nd.P.Self().ID(), r, rng)
		emit("api", nd.P.Self().ID(), r, id, nd.P.InRange(id))
	}
	// what the node ADVERTISES: the radius it reports in its PONGs (every payload type it supports) and in the PINGs it sends
	// must be the radius of its store, as a little-endian SSZ uint256 (sweep mutant E/03-C06 wrote it big-endian)
	rp, err := netsim.NewRawPeer(sw, "10.0.0.77", 9177, nil)
	if err != nil {
		return err
	}
	defer rp.Close()
	var gotPing struct {
		mu sync.Mutex
		le []byte
	}
	rp.D5.RegisterTalkHandler(string(portalwire.History), func(_ *enode.Node, _ *stdnet.UDPAddr, msg []byte) []byte {
		if len(msg) > 0 && msg[0] == portalwire.PING {
			ping := &portalwire.Ping{}
			if ping.UnmarshalSSZ(msg[1:]) == nil {
				var le []byte
				switch ping.PayloadType { // which type the node picks depends on the capabilities it has learnt from this peer
				case pingext.ClientInfo:
					pl := &pingext.ClientInfoAndCapabilitiesPayload{}
					if pl.UnmarshalSSZ(ping.Payload) == nil {
						le = pl.DataRadius[:]
					}
				case pingext.BasicRadius:
					pl := &pingext.BasicRadiusPayload{}
					if pl.UnmarshalSSZ(ping.Payload) == nil {
						le = pl.DataRadius[:]
					}
				case pingext.HistoryRadius:
					pl := &pingext.HistoryRadiusPayload{}
					if pl.UnmarshalSSZ(ping.Payload) == nil {
						le = pl.DataRadius[:]
					}
				}
				if le != nil {
					gotPing.mu.Lock()
					gotPing.le = append([]byte{}, le...)
					gotPing.mu.Unlock()
				}
			}
			pl := pingext.NewClientInfoAndCapabilitiesPayload(portalwire.MaxDistance, []uint16{0, 1, 2, 65535})
			b, _ := pl.MarshalSSZ()
			pb, _ := (&portalwire.Pong{EnrSeq: 1, PayloadType: pingext.ClientInfo, Payload: b}).MarshalSSZ()
			return append([]byte{portalwire.PONG}, pb...)
		}
		return nil
	})
	leToBE := func(le []byte) []int {
		out := make([]int, len(le))
		for i := range le {
			out[len(le)-1-i] = int(le[i])
		}
		return out
	}
	for i := 0; i < 40; i++ {
		r := radii()
		if i%2 == 0 { // non-palindromic
			var b [32]byte
			rng.Read(b[:])
			r = new(uint256.Int).SetBytes(b[:])
		}
		st.SetRadius(r)
		rb := r.Bytes32()
		for _, typ := range []uint16{pingext.ClientInfo, pingext.BasicRadius, pingext.HistoryRadius} {
			var payload []byte
			switch typ {
			case pingext.ClientInfo:
				pl := pingext.NewClientInfoAndCapabilitiesPayload(portalwire.MaxDistance, []uint16{0, 1, 2, 65535})
				payload, _ = pl.MarshalSSZ()
			case pingext.BasicRadius:
				pl := pingext.NewBasicRadiusPayload(portalwire.MaxDistance)
				payload, _ = pl.MarshalSSZ()
			default:
				pl := pingext.NewHistoryRadiusPayload(portalwire.MaxDistance, 0)
				payload, _ = pl.MarshalSSZ()
			}
			pb, _ := (&portalwire.Ping{EnrSeq: 1, PayloadType: typ, Payload: payload}).MarshalSSZ()
			resp, err := rp.D5.TalkRequest(nd.P.Self(), string(portalwire.History), append([]byte{portalwire.PING}, pb...))
			if err != nil || len(resp) < 2 || resp[0] != portalwire.PONG {
				continue
			}
			pong := &portalwire.Pong{}
			if pong.UnmarshalSSZ(resp[1:]) != nil || pong.PayloadType != typ {
				continue // an error payload (type not supported by this network): no radius advertised
			}
			var le []byte
			switch typ {
			case pingext.ClientInfo:
				pl := &pingext.ClientInfoAndCapabilitiesPayload{}
				if pl.UnmarshalSSZ(pong.Payload) == nil {
					le = pl.DataRadius[:]
				}
			case pingext.BasicRadius:
				pl := &pingext.BasicRadiusPayload{}
				if pl.UnmarshalSSZ(pong.Payload) == nil {
					le = pl.DataRadius[:]
				}
			default:
				pl := &pingext.HistoryRadiusPayload{}
				if pl.UnmarshalSSZ(pong.Payload) == nil {
					le = pl.DataRadius[:]
				}
			}
			if le != nil {
				w.Emit(map[string]any{"ev": "advert", "via": fmt.Sprintf("pong/%d", typ), "radius": tracelog.Ints(rb[:]), "got": leToBE(le)})
			}
		}
		if i%4 == 0 { // the node's own PING to the raw peer
			gotPing.mu.Lock()
			gotPing.le = nil
			gotPing.mu.Unlock()
			portalwire.VerifPing(nd.P, rp.Self())
			gotPing.mu.Lock()
			le := gotPing.le
			gotPing.mu.Unlock()
			if le != nil {
				w.Emit(map[string]any{"ev": "advert", "via": "ping", "radius": tracelog.Ints(rb[:]), "got": leToBE(le)})
			}
		}
	}
	// the store RPC (portal_*Store): the verdict must be the in-range test on the content ID of the key (sweep mutant
	// 08-C06 ran it on the key bytes); keys are searched so that the id's distance sits on either side of the radius
	api := portalwire.NewPortalAPI(nd.P)
	self := nd.P.Self().ID()
	for i := 0; i < n/40+40; i++ {
		r := radii()
		if i%2 == 0 { // a radius that splits random ids: 2^255 and neighbours / a random high byte
			var b [32]byte
			rng.Read(b[:])
			b[0] = byte(0x40 + rng.Intn(0x80))
			r = new(uint256.Int).SetBytes(b[:])
		}
		st.SetRadius(r)
		key := make([]byte, 1+rng.Intn(40))
		rng.Read(key)
		if i%4 == 1 && len(key) >= 32 { // the key bytes themselves close to the node id while the id is anywhere
			copy(key, self[:])
			key[31] ^= byte(1 + rng.Intn(255))
		}
		id := nd.P.ToContentId(key)
		ok, err := api.Store(hexutil.Encode(key), hexutil.Encode([]byte{1, 2, 3}))
		if err != nil {
			continue // the store refused for another reason: no observation of the range test
		}
		emit("store", self, r, id, ok)
	}
	return nil
}
