package net

import (
	"bytes"
	"crypto/sha256"
	"encoding/binary"
	"fmt"
	stdnet "net"
	"os"
	"os/exec"
	"sync"
	"time"

	bitfield "github.com/OffchainLabs/go-bitfield"
	"github.com/ethereum/go-ethereum/p2p/enode"
	"github.com/ethereum/go-ethereum/p2p/enr"
	"github.com/zen-eth/shisui/portalwire"
	utp "github.com/zen-eth/utp-go"

	"verifharness/common"
	"verifharness/netsim"
	"verifharness/tracelog"
)

// C16: transfer slots. One scenario = one real node with a slot limit, a set of scripted peers that produce
// each outcome of an outbound offer, a burst of gossip rounds (and optionally Stop in the middle), and a burst
// of inbound offers whose transfers succeed, are malformed or never happen. Every acquire / release is observed
// through the verif event hook; quiescence is decided from events (every started offer has returned, every
// transfer goroutine has ended), never from elapsed time.
//
// The hook is process-wide, so scenarios of one process run one after another; parallelism comes from child
// processes (one per worker).

type permitWatch struct {
	mu                              sync.Mutex
	starts, returns, tstarts, tends int
	recvStarts, recvEnds            int
	acqIn, relIn, acqOut, relOut    int
	maxIn, maxOut                   int
	maxT                            int // high-water mark of outbound transfer goroutines running at once (events, not permits)
	overRelease                     bool
	ctl                             interface{} // the observed node\'s utpController (events of other nodes are ignored)
	learning                        bool
}

func (p *permitWatch) install() {
	portalwire.VerifEvent = func(name string, arg interface{}) {
		p.mu.Lock()
		defer p.mu.Unlock()
		if len(name) > 7 && name[:7] == "permit." {
			if p.learning && p.ctl == nil {
				p.ctl = arg
			}
			if arg != p.ctl || p.learning {
				return
			}
		}
		if name == "offer.recv.start" || name == "offer.recv.end" {
			// only the observed node's own inbound offers (their keys carry the marker byte 0xee)
			keys, _ := arg.([][]byte)
			if len(keys) == 0 || len(keys[0]) < 2 || keys[0][1] != 0xee {
				return
			}
		}
		switch name {
		case "permit.acquire.in":
			p.acqIn++
			if p.acqIn-p.relIn > p.maxIn {
				p.maxIn = p.acqIn - p.relIn
			}
		case "permit.release.in":
			p.relIn++
			if p.relIn > p.acqIn {
				p.overRelease = true
			}
		case "permit.acquire.out":
			p.acqOut++
			if p.acqOut-p.relOut > p.maxOut {
				p.maxOut = p.acqOut - p.relOut
			}
		case "permit.release.out":
			p.relOut++
			if p.relOut > p.acqOut {
				p.overRelease = true
			}
		case "offer.start":
			p.starts++
		case "offer.return":
			p.returns++
		case "offer.transfer.start":
			p.tstarts++
			if p.tstarts-p.tends > p.maxT {
				p.maxT = p.tstarts - p.tends
			}
		case "offer.transfer.end":
			p.tends++
		case "offer.recv.start":
			p.recvStarts++
		case "offer.recv.end":
			p.recvEnds++
		}
	}
}

func (p *permitWatch) snapshot() map[string]int {
	p.mu.Lock()
	defer p.mu.Unlock()
	return map[string]int{"starts": p.starts, "returns": p.returns, "tstarts": p.tstarts, "tends": p.tends, "recvStarts": p.recvStarts,
		"recvEnds": p.recvEnds, "acqIn": p.acqIn, "relIn": p.relIn, "acqOut": p.acqOut, "relOut": p.relOut, "maxIn": p.maxIn, "maxOut": p.maxOut, "maxT": p.maxT}
}

func runPermits(w *tracelog.Writer, out string, seed int64, scenarios, workers int, slow bool, child int) error {
	if child < 0 && workers > 1 {
		// parent: fan out to child processes, then concatenate their traces in order
		var wg sync.WaitGroup
		errs := make([]error, workers)
		for c := 0; c < workers; c++ {
			wg.Add(1)
			go func(c int) {
				defer wg.Done()
				args := []string{"net", "--mode", "permits", "--seed", fmt.Sprint(seed), "--n", fmt.Sprint(scenarios), "--workers", fmt.Sprint(workers),
					"--child", fmt.Sprint(c), "--out", fmt.Sprintf("%s.%d", out, c)}
				if slow {
					args = append(args, "--slow")
				}
				cmd := exec.Command(os.Args[0], args...)
				var buf bytes.Buffer
				cmd.Stdout, cmd.Stderr = &buf, &buf
				if err := cmd.Run(); err != nil {
					errs[c] = fmt.Errorf("permits child %d: %v\n%s", c, err, buf.String())
				}
			}(c)
		}
		wg.Wait()
		for c := 0; c < workers; c++ {
			if errs[c] != nil {
				return errs[c]
			}
			evs, err := readCases(fmt.Sprintf("%s.%d", out, c))
			if err != nil {
				return err
			}
			for _, e := range evs {
				delete(e, "seq")
				w.Emit(e)
			}
			os.Remove(fmt.Sprintf("%s.%d", out, c))
		}
		return nil
	}
	if child < 0 {
		child, workers = 0, 1
	}
	for t := child; t < scenarios; t += workers {
		evs, err := permitScenario(t, seed*40503+int64(t), slow)
		if err != nil {
			return err
		}
		for _, e := range evs {
			e["t"] = t
			w.Emit(e)
		}
	}
	return nil
}

const (
	pkSilent = iota
	pkEmpty
	pkWrongCode
	pkUndecodable
	pkWrongCount
	pkDeclined
	pkAcceptNoDial // accepts, but nobody listens for the uTP connection: the dial runs into the code's 15 s timeout
	pkSuccess      // a real node: accepts and receives
)

var pkNames = []string{"silent", "empty", "wrongcode", "undecodable", "wrongcount", "declined", "acceptnodial", "success"}

func permitScenario(t int, seed int64, slow bool) ([]map[string]any, error) {
	rng := common.Rng(seed)
	pw := &permitWatch{}
	pw.install()
	defer func() { portalwire.VerifEvent = nil }()
	sw := netsim.NewSwitch()
	limit := []int{0, 1, 2, 3, 3}[rng.Intn(5)]
	if t%24 == 4 {
		limit = 3
	}
	if !slow && t%24 == 7 {
		limit = 8 // every peer of the forced-timeouts scenario gets its offer with a slot
	}
	if t%24 == 0 {
		limit = 8 // one slot per peer: every peer kind gets its offer WITH a slot (with fewer slots than peers the silent peers,
		// which keep theirs until the request times out, can starve the others of any offer that holds a slot)
	}
	// without --slow one scenario in 24 still waits for the code's own 15 s timeouts (a peer that accepts and never lets the
	// node connect; an accepted offer whose transfer never comes): it runs in its own child process beside the others
	timeouts := slow || t%24 == 7
	forceTimeouts := !slow && t%24 == 7
	// two scenarios in 24 are laid out instead of drawn, so that every tier and every seed sees each outcome at least once
	// (the vacuity guard of the check asks for them): one peer of every outbound kind / accepted inbound offers of every kind
	outShow := t%24 == 0
	inShow := t%24 == 4
	flood := t%7 == 3 || t%7 == 5 // fill the offer queue: needs more slots than the queue holds
	floodStop := t%7 == 5         // ... and stop the node while requests are still queued
	// without --slow the overflowing flood is stopped too instead of being drained (draining 1400 offers to silent peers
	// takes the code's request timeout 28 times over): slots lost at the full queue are then still missing after the stop
	floodFullStop := !slow && t%7 == 3
	if flood {
		limit = 1400
	}
	if floodStop {
		limit = 600
	}
	// forced overlap of outbound transfers: more slow successful peers than slots, gossip rounds staggered in time
	overlapOut := !flood && t%6 == 2
	if overlapOut {
		limit = 1 + rng.Intn(2)
	}
	A, err := netsim.NewNode(sw, netsim.NodeOpts{IP: "10.0.0.1", Port: 9001, MaxUtp: limit, QueueCap: 200})
	if err != nil {
		return nil, err
	}
	// learn which controller belongs to A (no events at all when its limit is 0)
	pw.mu.Lock()
	pw.learning = true
	pw.mu.Unlock()
	if pm, ok := A.P.Utp.GetInboundPermit(); ok {
		pm.Release()
	}
	pw.mu.Lock()
	pw.learning = false
	if pw.ctl == nil {
		pw.ctl = &struct{}{} // matches nothing
	}
	pw.mu.Unlock()
	stopped := false
	defer func() {
		if !stopped {
			A.Stop()
		}
	}()
	var out []map[string]any
	out = append(out, map[string]any{"ev": "pm.init", "limit": limit, "flood": flood})
	t0 := time.Now()
	dbg := func(what string) {
		if os.Getenv("VERIF_DEBUG") != "" {
			fmt.Fprintf(os.Stderr, "[permits t=%d] %6.2fs %s\n", t, time.Since(t0).Seconds(), what)
		}
	}
	emitQ := func(phase string, stoppedNow bool) {
		s := pw.snapshot()
		ev := map[string]any{"ev": "pm.quiescent", "phase": phase, "limit": limit, "stopped": stoppedNow, "queued": portalwire.VerifOfferQueueLen(A.P),
			"freeIn": freeSlots(A.P.Utp.GetInboundPermit), "freeOut": freeSlots(A.P.Utp.GetOutboundPermit)}
		for k, v := range s {
			ev[k] = v
		}
		ev["heldIn"], ev["heldOut"] = s["acqIn"]-s["relIn"], s["acqOut"]-s["relOut"]
		pw.mu.Lock()
		ev["overRelease"] = pw.overRelease
		pw.mu.Unlock()
		// the probe above took and returned slots itself: forget them
		pw.mu.Lock()
		pw.acqIn, pw.relIn, pw.acqOut, pw.relOut = s["acqIn"], s["relIn"], s["acqOut"], s["relOut"]
		pw.maxIn, pw.maxOut = s["maxIn"], s["maxOut"]
		pw.mu.Unlock()
		out = append(out, ev)
	}
	// quiescent: nothing queued (unless stopped), every offer() returned, every transfer / receive goroutine ended
	waitQuiet := func(max time.Duration, afterStop bool) bool {
		deadline := time.Now().Add(max)
		for time.Now().Before(deadline) {
			s := pw.snapshot()
			if s["starts"] == s["returns"] && s["tstarts"] == s["tends"] && s["recvStarts"] == s["recvEnds"] &&
				(afterStop || portalwire.VerifOfferQueueLen(A.P) == 0) {
				time.Sleep(30 * time.Millisecond) // let a worker that just dequeued reach offer.start
				s2 := pw.snapshot()
				if s2["starts"] == s["starts"] && s2["returns"] == s2["starts"] && s2["tstarts"] == s2["tends"] && s2["recvStarts"] == s2["recvEnds"] &&
					(afterStop || portalwire.VerifOfferQueueLen(A.P) == 0) {
					return true
				}
			}
			time.Sleep(20 * time.Millisecond)
		}
		return false
	}

	// ---- outbound: peers by outcome ----
	kinds := []int{pkSilent, pkEmpty, pkWrongCode, pkUndecodable, pkWrongCount, pkDeclined, pkSuccess}
	if timeouts {
		kinds = append(kinds, pkAcceptNoDial)
	}
	npeers := 1 + rng.Intn(7)
	if outShow {
		npeers = len(kinds)
	}
	if flood {
		npeers = 8
	}
	if overlapOut {
		npeers = limit + 2
	}
	var peerKinds []int
	slowIPs := map[string]bool{}
	sw.SetFault(func(d netsim.Datagram, _ []byte) (bool, bool, time.Duration) {
		if slowIPs[d.From.Addr().String()] || slowIPs[d.To.Addr().String()] {
			return false, false, 60 * time.Millisecond
		}
		return false, false, 0
	})
	for i := 0; i < npeers; i++ {
		k := kinds[rng.Intn(len(kinds))]
		if outShow { // every outcome once, in order
			k = kinds[i%len(kinds)]
		}
		if forceTimeouts && i == 0 {
			k = pkAcceptNoDial
		}
		if flood {
			k = pkSilent
		}
		if overlapOut {
			k = pkSuccess
		}
		peerKinds = append(peerKinds, k)
		ip := fmt.Sprintf("10.4.0.%d", 10+i)
		if k == pkSuccess {
			if rng.Intn(2) == 0 || overlapOut { // a slow link: transfers to this peer last long enough to overlap with others
				slowIPs[ip] = true
			}
			B, err := netsim.NewNode(sw, netsim.NodeOpts{IP: ip, Port: 9100, MaxUtp: 64, QueueCap: 4000})
			if err != nil {
				return nil, err
			}
			defer B.Stop()
			go func() { // consume what arrives
				for range B.Queue {
				}
			}()
			A.P.AddEnr(B.P.Self())
			continue
		}
		R, err := netsim.NewRawPeer(sw, ip, 9100, nil)
		if err != nil {
			return nil, err
		}
		defer R.Close()
		kind := k
		ver := rng.Intn(2) // the protocol version this peer speaks (and advertises)
		if ver == 1 {
			R.LN.Set(enr.WithEntry("pv", []byte{0, 1}))
		} else {
			R.LN.Set(enr.WithEntry("pv", []byte{0}))
		}
		R.D5.RegisterTalkHandler(string(portalwire.History), func(id *enode.Node, addr *stdnet.UDPAddr, msg []byte) []byte {
			if len(msg) == 0 || msg[0] != portalwire.OFFER {
				return nil
			}
			off := &portalwire.Offer{}
			nkeys := 1
			if err := off.UnmarshalSSZ(msg[1:]); err == nil {
				nkeys = len(off.ContentKeys)
			}
			cid := make([]byte, 2)
			binary.BigEndian.PutUint16(cid, 4242)
			v1 := func(codes []uint8) []byte { // verdict list in the encoding of the peer's version (0 = accepted)
				if ver == 0 {
					bl := bitfield.NewBitlist(uint64(len(codes)))
					for i, c := range codes {
						bl.SetBitAt(uint64(i), c == 0)
					}
					a := &portalwire.Accept{ConnectionId: cid, ContentKeys: bl}
					b, _ := a.MarshalSSZ()
					return append([]byte{portalwire.ACCEPT}, b...)
				}
				a := &portalwire.AcceptV1{ConnectionId: cid, ContentKeys: codes}
				b, _ := a.MarshalSSZ()
				return append([]byte{portalwire.ACCEPT}, b...)
			}
			switch kind {
			case pkEmpty:
				return nil
			case pkWrongCode:
				return []byte{portalwire.CONTENT, 0, 1, 2}
			case pkUndecodable:
				return []byte{portalwire.ACCEPT, 1}
			case pkWrongCount: // one verdict too many (or too few), some of them "accepted"
				codes := make([]uint8, nkeys+1)
				if nkeys > 1 && len(msg)%2 == 0 {
					codes = make([]uint8, nkeys-1)
				}
				for i := range codes {
					if i%2 == 1 {
						codes[i] = uint8(portalwire.GenericDeclined)
					}
				}
				return v1(codes)
			case pkDeclined:
				codes := make([]uint8, nkeys)
				for i := range codes {
					codes[i] = uint8(portalwire.GenericDeclined)
				}
				return v1(codes)
			case pkAcceptNoDial:
				return v1(make([]uint8, nkeys)) // all accepted, but this peer has no uTP
			}
			return nil
		})
		A.P.AddEnr(R.Self())
		if k == pkSilent {
			sw.Detach(R.Addr)
		}
	}
	kn := []string{}
	for _, k := range peerKinds {
		kn = append(kn, pkNames[k])
	}
	rounds := 1 + rng.Intn(4)
	if flood {
		rounds = 400
	}
	if floodStop {
		rounds = 60
	}
	floodStop = floodStop || floodFullStop
	if overlapOut {
		rounds = 8
	}
	stopMid := (!flood && !overlapOut && !outShow && !inShow && rng.Intn(4) == 0) || floodStop
	var wg sync.WaitGroup
	gossiped := 0
	var gmu sync.Mutex
	for r := 0; r < rounds; r++ {
		wg.Add(1)
		go func(r int) {
			defer wg.Done()
			key := []byte{byte(t), byte(r), byte(r >> 8), 7}
			n, _ := A.P.Gossip(nil, [][]byte{key}, [][]byte{bytes.Repeat([]byte{byte(r)}, 1+r%3000)})
			gmu.Lock()
			gossiped += n
			gmu.Unlock()
		}(r)
		if r%16 == 15 || outShow {
			wg.Wait()
		}
		if outShow { // round after round: every peer is offered to while all slots are free
			waitQuiet(30*time.Second, false)
		}
		if overlapOut {
			time.Sleep(80 * time.Millisecond)
		}
	}
	wg.Wait()
	if outShow {
		// a batch that cannot be encoded (65 keys, one more than an OFFER may carry): every target's slot goes back all the same
		// (sweep mutant G3/19-C16 dropped the release on that return of offer())
		var ks, cs [][]byte
		for i := 0; i < 65; i++ {
			ks = append(ks, []byte{byte(t), 0xbb, byte(i)})
			cs = append(cs, []byte{byte(i)})
		}
		A.P.Gossip(nil, ks, cs)
		waitQuiet(30*time.Second, false)
	}
	dbg("gossip rounds done")
	out = append(out, map[string]any{"ev": "pm.gossip", "rounds": rounds, "peers": kn, "targets": gossiped, "stopMid": stopMid,
		"show": outShow, "acqOut": pw.snapshot()["acqOut"]})
	if stopMid {
		if !floodStop {
			time.Sleep(time.Duration(rng.Intn(40)) * time.Millisecond)
		}
		A.Stop()
		stopped = true
		quiet := waitQuiet(40*time.Second, true)
		if quiet {
			emitQ("after-stop", true)
		} else {
			out = append(out, map[string]any{"ev": "pm.noquiet", "phase": "after-stop"})
		}
		return out, nil
	}
	maxWait := 20 * time.Second
	if timeouts {
		maxWait = 100 * time.Second
	}
	if waitQuiet(maxWait, false) {
		dbg("outbound quiet")
		emitQ("outbound", false)
	} else {
		out = append(out, map[string]any{"ev": "pm.noquiet", "phase": "outbound"})
		return out, nil
	}
	if flood {
		return out, nil
	}

	// ---- inbound: offers to A whose transfers succeed, are malformed, or never come ----
	C, err := netsim.NewNode(sw, netsim.NodeOpts{IP: "10.0.0.3", Port: 9003, MaxUtp: 16})
	if err != nil {
		return nil, err
	}
	defer C.Stop()
	go func() {
		for range A.Queue {
		}
	}()
	nin := 2 + rng.Intn(5)
	if inShow {
		nin = 6
	}
	forceOpen := t%4 == 1 && limit > 0 // the first `limit` accepted offers keep their stream open, then one more offer follows
	if forceOpen && nin < limit+2 {
		nin = limit + 2
	}
	inKinds := []string{}
	neverDone := false
	accN := 0
	// streams the harness has established for an accepted offer and not finished yet: while such a stream is young
	// (the reader's timeout is 60 s, uTP's idle timeout 60 s) the transfer is in progress at the node whatever it
	// thinks of its slots
	type openStream struct {
		s      *utp.UtpStream
		since  time.Time
		cancel func() // of the dialling context: cancelling it shuts the stream down
	}
	var opened []openStream
	for i := 0; i < nin; i++ {
		key := []byte{byte(t), 0xee, byte(i), byte(rng.Intn(256))}
		if i == 1 || rng.Intn(5) == 0 {
			// a key the node already holds: every verdict of this offer is a decline while slots are free - the offer must not
			// keep a slot (sweep mutant C/27-C16 took the slot before looking at the verdicts)
			kid := sha256.Sum256(key)
			A.Store.Put(key, kid[:], []byte{1, 2, 3})
		}
		off := &portalwire.Offer{ContentKeys: [][]byte{key}}
		ob, _ := off.MarshalSSZ()
		resp, err := C.D5.TalkRequest(A.P.Self(), string(portalwire.History), append([]byte{portalwire.OFFER}, ob...))
		openSure := 0
		now := time.Now()
		for _, o := range opened {
			if now.Sub(o.since) < 20*time.Second {
				openSure++
			}
		}
		if err != nil || len(resp) < 2 || resp[0] != portalwire.ACCEPT {
			inKinds = append(inKinds, "noreply")
			continue
		}
		acc := &portalwire.AcceptV1{}
		if err := acc.UnmarshalSSZ(resp[1:]); err != nil || len(acc.ContentKeys) != 1 {
			inKinds = append(inKinds, "undecodable")
			continue
		}
		out = append(out, map[string]any{"ev": "pm.offerin", "limit": limit, "openSure": openSure, "accepted": acc.ContentKeys[0] == 0, "verdict": int(acc.ContentKeys[0])})
		if acc.ContentKeys[0] != 0 {
			inKinds = append(inKinds, "declined")
			continue
		}
		cid := binary.BigEndian.Uint16(acc.ConnectionId)
		inAll := []string{"ok", "badcount", "garbage", "open", "ok", "never", "open"}
		kind := inAll[rng.Intn(7)]
		if inShow { // every outcome in turn
			kind = inAll[accN%4]
		}
		accN++
		if forceOpen && len(opened) < limit {
			kind = "open"
		}
		if forceTimeouts && !neverDone {
			kind, neverDone = "never", true
		}
		if !timeouts && kind == "never" {
			kind = "ok" // the abandoned transfer ends only with the code's 15 s accept timeout
		}
		inKinds = append(inKinds, kind)
		if kind == "never" {
			continue
		}
		payload := portalwire.VerifEncodeContents([][]byte{bytes.Repeat([]byte{1}, 500)})
		if kind == "badcount" {
			payload = portalwire.VerifEncodeContents([][]byte{{1}, {2}})
		} else if kind == "garbage" {
			payload = []byte{0xff, 0xff, 0xff, 0xff, 0xff, 0xff, 1}
		}
		if kind == "open" {
			ctx, cancel := contextWithTimeout(50 * time.Second)
			st, err := C.P.Utp.DialWithCid(ctx, A.P.Self(), cid)
			if err == nil {
				st.Write(ctx, payload[:3]) // the beginning only: the reader keeps waiting for the end of the stream
				opened = append(opened, openStream{st, time.Now(), cancel})
				time.Sleep(150 * time.Millisecond) // let the node's receive goroutine get past its accept
			} else {
				inKinds[len(inKinds)-1] = "open-failed"
				cancel()
			}
			continue
		}
		go func() {
			ctx, cancel := contextWithTimeout(10 * time.Second)
			defer cancel()
			s, err := C.P.Utp.DialWithCid(ctx, A.P.Self(), cid)
			if err != nil {
				return
			}
			s.Write(ctx, payload)
			s.Close()
		}()
	}
	dbg("inbound offers sent")
	for _, o := range opened { // finish the held streams
		ctx, cancel := contextWithTimeout(10 * time.Second)
		_, werr := o.s.Write(ctx, portalwire.VerifEncodeContents([][]byte{bytes.Repeat([]byte{1}, 500)})[3:])
		o.s.Close()
		cancel()
		o.cancel()
		dbg(fmt.Sprintf("finish write err=%v", werr))
	}
	dbg("held streams finished")
	out = append(out, map[string]any{"ev": "pm.inbound", "offers": inKinds})
	// after a finished transfer the receive goroutine runs one more accept (15 s) before it ends: await the events
	if waitQuiet(60*time.Second, false) {
		dbg("inbound quiet")
		emitQ("inbound", false)
	} else {
		out = append(out, map[string]any{"ev": "pm.noquiet", "phase": "inbound"})
	}
	return out, nil
}
