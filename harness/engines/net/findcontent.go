package net

import (
	"crypto/sha256"
	"fmt"
	stdnet "net"
	"sort"
	"sync"
	"time"

	"github.com/ethereum/go-ethereum/p2p/enode"
	"github.com/ethereum/go-ethereum/p2p/enr"
	"github.com/ethereum/go-ethereum/rlp"
	"github.com/zen-eth/shisui/portalwire"

	"verifharness/common"
	"verifharness/netsim"
	"verifharness/tracelog"
)

// One FINDCONTENT scenario (C08): asker A and responder B are real PortalProtocol instances; B holds the
// content (real pebble store) or a routing table filled with signed ENRs of chosen sizes.
func runFindContent(w *tracelog.Writer, cases []map[string]any, seed int64, reps, workers int) error {
	type job struct {
		c   map[string]any
		rep int
	}
	var jobs []job
	for r := 0; r < reps; r++ {
		for _, c := range cases {
			jobs = append(jobs, job{c, r})
		}
	}
	var mu sync.Mutex
	var firstErr error
	// concurrent transfers: several large find-contents at once between the same nodes (connection ids and streams must not
	// be mixed up), from one or two askers
	nconc := 6 * reps
	parallel(nconc, workers, func(i int) {
		evs, err := findContentConcurrent(seed*7368787+int64(i), i)
		mu.Lock()
		defer mu.Unlock()
		if err != nil && firstErr == nil {
			firstErr = err
		}
		for _, ev := range evs {
			ev["t"] = 100000 + i
			w.Emit(ev)
		}
	})
	parallel(len(jobs), workers, func(i int) {
		ev, err := findContentScenario(jobs[i].c, seed*1000003+int64(i), jobs[i].rep)
		mu.Lock()
		defer mu.Unlock()
		if err != nil && firstErr == nil {
			firstErr = err
		}
		if ev != nil {
			ev["t"] = i
			w.Emit(ev)
		}
	})
	return firstErr
}

func findContentConcurrent(seed int64, t int) ([]map[string]any, error) {
	rng := common.Rng(seed)
	sw := netsim.NewSwitch()
	vs := [][]uint8{{0}, {1}, {0, 1}}
	vb := vs[rng.Intn(3)]
	B, err := netsim.NewNode(sw, netsim.NodeOpts{IP: "10.0.0.2", Port: 9002, Versions: vb, MaxUtp: 16})
	if err != nil {
		return nil, err
	}
	defer B.Stop()
	nask := 1 + t%2
	var askers []*netsim.Node
	var avs [][]uint8
	for a := 0; a < nask; a++ {
		va := vs[rng.Intn(3)]
		if va[len(va)-1] == 1 && len(va) == 1 && len(vb) == 1 && vb[0] == 0 || len(va) == 1 && va[0] == 0 && len(vb) == 1 && vb[0] == 1 {
			va = []uint8{0, 1} // keep a common version
		}
		A, err := netsim.NewNode(sw, netsim.NodeOpts{IP: fmt.Sprintf("10.0.0.%d", 11+a), Port: uint16(9011 + a), Versions: va, MaxUtp: 16})
		if err != nil {
			return nil, err
		}
		defer A.Stop()
		askers = append(askers, A)
		avs = append(avs, va)
	}
	n := 3 + rng.Intn(4)
	type req struct {
		key, content []byte
		a            int
	}
	reqs := make([]req, n)
	for i := range reqs {
		k := make([]byte, 2+rng.Intn(40))
		rng.Read(k)
		c := make([]byte, 1177+rng.Intn(40000))
		if i%3 == 2 {
			c = make([]byte, rng.Intn(1176)) // an inline answer among the streams
		}
		rng.Read(c)
		cid := sha256.Sum256(k)
		if err := B.Store.Put(k, cid[:], c); err != nil {
			return nil, err
		}
		reqs[i] = req{k, c, i % nask}
	}
	mark := sw.Mark()
	out := make([]map[string]any, n)
	var wg sync.WaitGroup
	for i := range reqs {
		wg.Add(1)
		go func(i int) {
			defer wg.Done()
			r := reqs[i]
			ints := func(v []uint8) []int {
				o := []int{}
				for _, x := range v {
					o = append(o, int(x))
				}
				return o
			}
			ev := map[string]any{"ev": "findcontent", "case": map[string]any{"kind": "conc", "stored": true, "size": len(r.content), "va": ints(avs[r.a]), "vb": ints(vb),
				"asker": "any", "table": "empty", "enr": "min", "link": "clean", "common": 0, "n": n, "askers": nask},
				"stored": true, "size": len(r.content), "slen": len(r.content), "stag": common.Tag(r.content), "kind": "noobs", "len": 0, "tag": 0,
				"maxdg": 0, "enrs": []map[string]any{}, "table": []map[string]any{}, "asker_in_table": false, "detail": "", "common": 0}
			type res struct {
				flag byte
				data []byte
				err  error
			}
			ch := make(chan res, 1)
			go func() {
				flag, v, err := portalwire.VerifFindContent(askers[r.a].P, B.P.Self(), r.key)
				d, _ := v.([]byte)
				ch <- res{flag, d, err}
			}()
			select {
			case x := <-ch:
				switch {
				case x.err != nil:
					ev["kind"], ev["detail"] = "err", x.err.Error()
				case x.flag == portalwire.ContentRawSelector:
					ev["kind"], ev["len"], ev["tag"] = "raw", len(x.data), common.Tag(x.data)
				case x.flag == portalwire.ContentConnIdSelector:
					ev["kind"], ev["len"], ev["tag"] = "utp", len(x.data), common.Tag(x.data)
				default:
					ev["kind"] = "enrs"
				}
			case <-time.After(30 * time.Second):
				ev["detail"] = "no result within 30 s (slowness is never a verdict)"
			}
			out[i] = ev
		}(i)
	}
	wg.Wait()
	maxdg := 0
	for _, d := range sw.Since(mark) {
		if d.From == B.Addr && d.Size > maxdg {
			maxdg = d.Size
		}
	}
	for _, ev := range out {
		ev["maxdg"] = maxdg
	}
	return out, nil
}

func findContentScenario(c map[string]any, seed int64, rep int) (map[string]any, error) {
	rng := common.Rng(seed)
	sw := netsim.NewSwitch()
	stored, _ := c["stored"].(bool)
	size := int(c["size"].(float64))
	if rep > 0 && size > 1176 { // further concretisations vary the multi-packet sizes
		size += rng.Intn(5000)
	}
	va, vb := u8s(c["va"]), u8s(c["vb"])
	table, _ := c["table"].(string)
	enrc, _ := c["enr"].(string)
	link, _ := c["link"].(string)
	A, err := netsim.NewNode(sw, netsim.NodeOpts{IP: "10.0.0.1", Port: 9001, Versions: va, MaxUtp: 4})
	if err != nil {
		return nil, err
	}
	defer A.Stop()
	B, err := netsim.NewNode(sw, netsim.NodeOpts{IP: "10.0.0.2", Port: 9002, Versions: vb, MaxUtp: 4})
	if err != nil {
		return nil, err
	}
	defer B.Stop()
	key := make([]byte, 1+rng.Intn(60))
	rng.Read(key)
	cid := sha256.Sum256(key)
	if a, _ := c["asker"].(string); a == "closest" {
		// a content id near the asker's node id: the asker's record is among the closest candidates
		for tries := 0; tries < 5000 && enode.LogDist(A.P.Self().ID(), enode.ID(cid)) > 250; tries++ {
			rng.Read(key)
			cid = sha256.Sum256(key)
		}
	}
	ev := map[string]any{"ev": "findcontent", "case": c, "stored": stored, "size": size, "slen": 0, "stag": 0, "kind": "noobs", "len": 0, "tag": 0,
		"maxdg": 0, "enrs": []map[string]any{}, "table": []map[string]any{}, "asker_in_table": false, "detail": "", "common": c["common"]}
	var content []byte
	if stored {
		content = make([]byte, size)
		rng.Read(content)
		if err := B.Store.Put(key, cid[:], content); err != nil {
			return nil, fmt.Errorf("prefill put: %w", err)
		}
		ev["slen"], ev["stag"] = len(content), common.Tag(content)
	}
	// B's routing table
	ntab := map[string]int{"empty": 0, "few": 3, "bucket": 16, "many": 40}[table]
	idx := map[enode.ID]int{}
	for i := 0; i < ntab; i++ {
		sz := 0
		switch enrc {
		case "max":
			sz = 300
		case "tight": // five records fit only if the 4-byte offsets are forgotten - all five of them (235) or those of the records already added (232..234)
			sz = []int{235, 233, 234, 232}[int((seed+int64(rep))%4)]
		case "mixed":
			sz = []int{231, 231, 231, 230, 232, 300, 0}[(i+rep)%7]
			if rep == 0 {
				sz = 231 // five records fill the ENR budget exactly: the reply datagram is exactly one packet
			}
		}
		n := mkENR(rng, nil, stdnet.IP{10, 0, byte(1 + i/200), byte(1 + i%200)}, 30000+i, sz, 1)
		idx[n.ID()] = i
		B.P.AddEnr(n)
	}
	// every other scenario: B holds an OLDER record of the asker than the one the asker's session will carry (the asker
	// is recognised by its id, whatever the sequence number of the record in the table)
	if (seed+int64(rep))%2 == 1 {
		B.P.AddEnr(A.P.Self())
		A.LN.Set(enr.WithEntry("rev", uint32(rep)))
	}
	// make B know A first when the scenario wants the asker in the table: any request does that (inbound contact)
	mark := sw.Mark()
	switch link {
	case "loss":
		sw.SetFault(func(d netsim.Datagram, _ []byte) (bool, bool, time.Duration) { return d.N%7 == 0, false, 0 })
	case "dup":
		sw.SetFault(func(d netsim.Datagram, _ []byte) (bool, bool, time.Duration) { return false, d.N%3 == 0, 0 })
	case "reorder":
		sw.SetFault(func(d netsim.Datagram, _ []byte) (bool, bool, time.Duration) {
			if d.N%4 == 0 {
				return false, false, 15 * time.Millisecond
			}
			return false, false, 0
		})
	}
	type result struct {
		kind   string
		data   []byte
		enrs   [][]byte
		detail string
	}
	done := make(chan result, 1)
	go func() {
		if stored {
			flag, res, err := portalwire.VerifFindContent(A.P, B.P.Self(), key)
			if err != nil {
				done <- result{kind: "err", detail: err.Error()}
				return
			}
			switch flag {
			case portalwire.ContentRawSelector:
				done <- result{kind: "raw", data: res.([]byte)}
			case portalwire.ContentConnIdSelector:
				done <- result{kind: "utp", data: res.([]byte)}
			default:
				done <- result{kind: "enrs"}
			}
			return
		}
		// not stored: judge the reply itself, so talk to B with raw bytes (twice: the first contact puts A into B's table)
		fc := &portalwire.FindContent{ContentKey: key}
		b, _ := fc.MarshalSSZ()
		msg := append([]byte{portalwire.FINDCONTENT}, b...)
		var resp []byte
		var err error
		for k := 0; k < 2; k++ {
			resp, err = A.D5.TalkRequest(B.P.Self(), string(portalwire.History), msg)
			if err != nil {
				done <- result{kind: "err", detail: err.Error()}
				return
			}
		}
		if len(resp) < 2 || resp[0] != portalwire.CONTENT {
			done <- result{kind: "err", detail: fmt.Sprintf("reply %x", resp)}
			return
		}
		if resp[1] != portalwire.ContentEnrsSelector {
			done <- result{kind: map[byte]string{portalwire.ContentRawSelector: "raw", portalwire.ContentConnIdSelector: "utp"}[resp[1]]}
			return
		}
		enrs := &portalwire.Enrs{}
		if err := enrs.UnmarshalSSZ(resp[2:]); err != nil {
			done <- result{kind: "err", detail: "undecodable enrs: " + err.Error()}
			return
		}
		done <- result{kind: "enrs", enrs: enrs.Enrs}
	}()
	var res result
	select {
	case res = <-done:
	case <-time.After(25 * time.Second):
		res = result{kind: "noobs", detail: "no result within 25 s (slowness is never a verdict)"}
	}
	sw.SetFault(nil)
	ev["kind"], ev["detail"] = res.kind, res.detail
	if res.data != nil {
		ev["len"], ev["tag"] = len(res.data), common.Tag(res.data)
	}
	maxdg := 0
	for _, d := range sw.Since(mark) {
		if d.From == B.Addr && d.Size > maxdg {
			maxdg = d.Size
		}
	}
	ev["maxdg"] = maxdg
	// B's table as it is now, with each node's log distance to the content id
	var tab []map[string]any
	for _, bucket := range B.P.RoutingTableInfo() {
		for _, hexid := range bucket {
			id, err := enode.ParseID(hexid[2:])
			if err != nil {
				continue
			}
			i, ok := idx[id]
			if !ok {
				i = -1
			}
			if id == A.P.Self().ID() {
				i = -2
				ev["asker_in_table"] = true
			}
			tab = append(tab, map[string]any{"i": i, "ld": enode.LogDist(id, enode.ID(cid))})
		}
	}
	sort.Slice(tab, func(a, b int) bool { return tab[a]["ld"].(int) < tab[b]["ld"].(int) })
	if tab == nil {
		tab = []map[string]any{}
	}
	ev["table"] = tab
	el := []map[string]any{}
	for _, raw := range res.enrs {
		var r enr.Record
		e := map[string]any{"i": -3, "ld": 0, "size": len(raw), "valid": false}
		if err := rlp.DecodeBytes(raw, &r); err == nil {
			if n, err := enode.New(enode.ValidSchemes, &r); err == nil {
				e["valid"] = true
				e["ld"] = enode.LogDist(n.ID(), enode.ID(cid))
				if i, ok := idx[n.ID()]; ok {
					e["i"] = i
				} else if n.ID() == A.P.Self().ID() {
					e["i"] = -2
				} else {
					e["i"] = -1
				}
			}
		}
		el = append(el, e)
	}
	ev["enrs"] = el
	return ev, nil
}
