package net

import (
	"bytes"
	"crypto/sha256"
	"errors"
	"fmt"
	stdnet "net"
	"os"
	"os/exec"
	"sync"
	"time"

	bitfield "github.com/OffchainLabs/go-bitfield"
	"github.com/ethereum/go-ethereum/p2p/enode"
	"github.com/holiman/uint256"
	"github.com/zen-eth/shisui/history"
	"github.com/zen-eth/shisui/portalwire"
	pingext "github.com/zen-eth/shisui/portalwire/ping_ext"

	"verifharness/common"
	"verifharness/netsim"
	"verifharness/tracelog"
)

// Node-level content pipeline (Shisui.tla): offer accepted -> stream received -> validated -> stored -> gossiped,
// on a real history Network (its own processContentLoop / validateContents) over the in-memory switch. The
// validator is the harness's: content is valid under a key iff it starts with the marker byte, so that the
// composition - not the cryptography, which C02 owns - is what is exercised.

type markValidator struct {
	mu    sync.Mutex
	calls int
	last  time.Time
}

const validMark = 0xA5

func (m *markValidator) ValidateContent(key, content []byte) error {
	m.mu.Lock()
	m.calls++
	m.last = time.Now()
	m.mu.Unlock()
	if len(content) > 0 && content[0] == validMark {
		return nil
	}
	return errors.New("invalid content (harness validator)")
}

func runPipeline(w *tracelog.Writer, out string, seed int64, scenarios, workers, child int) error {
	if child < 0 && workers > 1 {
		var wg sync.WaitGroup
		errs := make([]error, workers)
		for c := 0; c < workers; c++ {
			wg.Add(1)
			go func(c int) {
				defer wg.Done()
				cmd := exec.Command(os.Args[0], "net", "--mode", "pipeline", "--seed", fmt.Sprint(seed), "--n", fmt.Sprint(scenarios),
					"--workers", fmt.Sprint(workers), "--child", fmt.Sprint(c), "--out", fmt.Sprintf("%s.%d", out, c))
				var buf bytes.Buffer
				cmd.Stdout, cmd.Stderr = &buf, &buf
				if err := cmd.Run(); err != nil {
					errs[c] = fmt.Errorf("pipeline child %d: %v\n%s", c, err, buf.String())
				}
			}(c)
		}
		wg.Wait()
		for c := 0; c < workers; c++ {
			if errs[c] != nil {
				return errs[c]
			}
			evs, err := readCases(fmt.Sprintf("%s.%d", out, c))
			if err != nil {
				return err
			}
			for _, e := range evs {
				delete(e, "seq")
				w.Emit(e)
			}
			os.Remove(fmt.Sprintf("%s.%d", out, c))
		}
		return nil
	}
	if child < 0 {
		child, workers = 0, 1
	}
	for t := child; t < scenarios; t += workers {
		evs, err := pipelineScenario(t, seed*69069+int64(t))
		if err != nil {
			return err
		}
		for _, e := range evs {
			e["t"] = t
			w.Emit(e)
		}
	}
	return nil
}

func pipelineScenario(t int, seed int64) ([]map[string]any, error) {
	rng := common.Rng(seed)
	sw := netsim.NewSwitch()
	// gossip offers of B are counted through the event hook (B's requests carry a real slot, the source's do not)
	var hmu sync.Mutex
	starts, returns := 0, 0
	portalwire.VerifEvent = func(name string, arg interface{}) {
		if _, ok := arg.(*portalwire.ReleasePermit); !ok {
			return
		}
		hmu.Lock()
		switch name {
		case "offer.start":
			starts++
		case "offer.return":
			returns++
		}
		hmu.Unlock()
	}
	defer func() { portalwire.VerifEvent = nil }()
	st := &netsim.RadiusStore{}
	B, err := netsim.NewNode(sw, netsim.NodeOpts{IP: "10.0.0.2", Port: 9002, MaxUtp: 32, QueueCap: 50, Store: st, NoStart: true})
	if err != nil {
		return nil, err
	}
	inner, err := netsim.NewMemStore(B.P.Self().ID(), 100)
	if err != nil {
		return nil, err
	}
	st.ContentStorage = inner
	bid := B.P.Self().ID()
	radius := uint256.MustFromHex("0xffffffffffffffffffffffffffffffffffffffffffffffffffffffffffffffff")
	if rng.Intn(2) == 0 {
		radius = uint256.NewInt(256)
	}
	st.SetRadius(radius)
	mv := &markValidator{}
	hn := history.NewHistoryNetwork(B.P, mv)
	if err := hn.Start(); err != nil {
		return nil, err
	}
	defer hn.Stop()
	// two sources (real nodes) and the gossip audience (scripted peers that log the offers they get)
	var sources []*netsim.Node
	for i := 0; i < 2; i++ {
		A, err := netsim.NewNode(sw, netsim.NodeOpts{IP: fmt.Sprintf("10.0.0.%d", 10+i), Port: 9001, MaxUtp: 16, QueueCap: 100})
		if err != nil {
			return nil, err
		}
		defer A.Stop()
		sources = append(sources, A)
		// the source reports its (maximal) radius: it becomes a covered gossip candidate of B
		portalwire.VerifPing(A.P, B.P.Self())
	}
	type got struct {
		to   int
		keys [][]byte
	}
	var gmu sync.Mutex
	var offers []got
	npeers := 2 + rng.Intn(7)
	kinds := []string{}
	for i := 0; i < npeers; i++ {
		R, err := netsim.NewRawPeer(sw, fmt.Sprintf("10.5.0.%d", 10+i), 9100, nil)
		if err != nil {
			return nil, err
		}
		defer R.Close()
		idx := i
		kind := []string{"covered", "covered", "covered", "unknown", "zero"}[rng.Intn(5)]
		kinds = append(kinds, kind)
		R.D5.RegisterTalkHandler(string(portalwire.History), func(id *enode.Node, addr *stdnet.UDPAddr, msg []byte) []byte {
			if len(msg) == 0 {
				return nil
			}
			switch msg[0] {
			case portalwire.OFFER:
				off := &portalwire.Offer{}
				if err := off.UnmarshalSSZ(msg[1:]); err != nil {
					return nil
				}
				gmu.Lock()
				offers = append(offers, got{idx, off.ContentKeys})
				gmu.Unlock()
				acc := &portalwire.Accept{ConnectionId: []byte{0, 0}, ContentKeys: bitfield.NewBitlist(uint64(len(off.ContentKeys)))}
				b, _ := acc.MarshalSSZ()
				return append([]byte{portalwire.ACCEPT}, b...)
			case portalwire.PING:
				pl := pingext.NewClientInfoAndCapabilitiesPayload(radiusLE(uint256.NewInt(0)), []uint16{0, 2, 65535})
				pb, _ := pl.MarshalSSZ()
				pong := &portalwire.Pong{EnrSeq: 1, PayloadType: pingext.ClientInfo, Payload: pb}
				b, _ := pong.MarshalSSZ()
				return append([]byte{portalwire.PONG}, b...)
			}
			return nil
		})
		switch kind {
		case "covered":
			B.P.AddEnr(R.Self()) // radius = maximum
		case "unknown": // in the table through an inbound contact with an unsupported ping type: no radius known
			ping := &portalwire.Ping{EnrSeq: 1, PayloadType: 7, Payload: []byte{}}
			pb, _ := ping.MarshalSSZ()
			R.D5.TalkRequest(B.P.Self(), string(portalwire.History), append([]byte{portalwire.PING}, pb...))
		case "zero": // reports radius 0 in the pong to B's ping
			B.P.AddEnr(R.Self())
			portalwire.VerifPing(B.P, R.Self())
		}
	}
	out := []map[string]any{{"ev": "pl.init", "peers": kinds, "radius256": radius.IsUint64()}}
	// key universe
	type ukey struct {
		key     []byte
		cid     [32]byte
		inrange bool
	}
	universe := make([]*ukey, 10)
	for i := range universe {
		k := &ukey{key: []byte{byte(t), byte(i), byte(rng.Intn(256)), byte(rng.Intn(256)), 1}}
		k.cid = sha256.Sum256(k.key)
		k.inrange = portalwire.VerifInRange(bid, radius, k.cid[:])
		universe[i] = k
	}
	idxOf := func(key []byte) int {
		for i, u := range universe {
			if string(u.key) == string(key) {
				return i
			}
		}
		return -1
	}
	storedNow := func() []int {
		s := []int{}
		for i, u := range universe {
			if _, err := B.P.Get(u.key, u.cid[:]); err == nil {
				s = append(s, i)
			}
		}
		return s
	}
	seenOffers := 0
	nb := 4 + rng.Intn(4)
	for b := 0; b < nb; b++ {
		src := rng.Intn(len(sources))
		A := sources[src]
		n := 1 + rng.Intn(4)
		perm := rng.Perm(len(universe))[:n]
		items := []map[string]any{}
		var contents []*portalwire.ContentEntry
		for _, ki := range perm {
			valid := rng.Intn(4) > 0
			c := make([]byte, 20+rng.Intn(2000))
			rng.Read(c)
			c[0] = validMark
			if !valid {
				c[0] = 0x00
			}
			contents = append(contents, &portalwire.ContentEntry{ContentKey: universe[ki].key, Content: c})
			items = append(items, map[string]any{"k": ki, "valid": valid, "inrange": universe[ki].inrange})
		}
		before := storedNow()
		mv.mu.Lock()
		callsBefore := mv.calls
		mv.mu.Unlock()
		req := &portalwire.OfferRequest{Kind: portalwire.TransientOfferRequestKind, Request: &portalwire.TransientOfferRequest{Contents: contents}}
		verd, oerr := portalwire.VerifOffer(A.P, B.P.Self(), req, &portalwire.NoPermit{})
		accepted := []int{} // the keys B accepted (both sides speak version 1: one code per key, 0 = accepted)
		if oerr == nil && len(verd) == len(perm) {
			for i, c := range verd {
				if c == 0 {
					accepted = append(accepted, perm[i])
				}
			}
		}
		ev := map[string]any{"ev": "pl.batch", "b": b, "src": src, "items": items, "stored_before": before, "offer_err": oerr != nil, "accepted": accepted}
		out = append(out, ev)
		// settle: the validator has been quiet for a while and every gossip offer that started has returned
		// (when keys were accepted the content WILL arrive: the 1.5 s shortcut is for batches of which nothing was accepted; a
		// transfer that has not arrived after 8 s is no observation and ends the scenario - it would be taken for the next batch's)
		expectArrival := oerr == nil && len(accepted) > 0
		called := false
		deadline := time.Now().Add(8 * time.Second)
		for time.Now().Before(deadline) {
			time.Sleep(40 * time.Millisecond)
			mv.mu.Lock()
			quietFor := time.Since(mv.last)
			called = mv.calls > callsBefore
			mv.mu.Unlock()
			hmu.Lock()
			balanced := starts == returns
			hmu.Unlock()
			if balanced && portalwire.VerifOfferQueueLen(B.P) == 0 && ((called && quietFor > 150*time.Millisecond) || (!expectArrival && time.Since(deadline.Add(-8*time.Second)) > 1500*time.Millisecond)) {
				break
			}
		}
		if expectArrival && !called {
			out = append(out, map[string]any{"ev": "pl.noobs", "b": b})
			return out, nil
		}
		gmu.Lock()
		newOffers := offers[seenOffers:]
		seenOffers = len(offers)
		gl := []map[string]any{}
		for _, g := range newOffers {
			ks := []int{}
			for _, k := range g.keys {
				ks = append(ks, idxOf(k))
			}
			gl = append(gl, map[string]any{"to": g.to, "keys": ks})
		}
		gmu.Unlock()
		// did B offer anything back to a source? (a source is a real node: such an offer ends in its validation queue)
		for si, S := range sources {
			select {
			case el := <-S.Queue:
				ks := []int{}
				for _, k := range el.ContentKeys {
					ks = append(ks, idxOf(k))
				}
				gl = append(gl, map[string]any{"to": -2 - si, "keys": ks})
			default:
			}
		}
		out = append(out, map[string]any{"ev": "pl.settled", "b": b, "stored": storedNow(), "gossip": gl})
	}
	return out, nil
}
