package net

import (
	"context"
	"crypto/sha256"
	"errors"
	"fmt"
	stdnet "net"
	"strings"
	"sync"
	"time"

	"github.com/ethereum/go-ethereum/p2p/enode"
	"github.com/ethereum/go-ethereum/p2p/enr"
	"github.com/zen-eth/shisui/portalwire"

	"verifharness/common"
	"verifharness/netsim"
	"verifharness/tracelog"
)

// C19: the version helper on real ENRs (three queries per peer, because the versions cache is part of the
// behaviour) and one offer + one large find-content per attempt between two real nodes.
func runVersions(w *tracelog.Writer, cases []map[string]any, seed int64, reps, workers int) error {
	type hcase struct {
		theirs map[string]any
	}
	byMine := map[string][]map[string]any{}
	var order []string
	var transfers []map[string]any
	for _, c := range cases {
		switch c["kind"] {
		case "helper":
			k := fmt.Sprint(c["mine"])
			if _, ok := byMine[k]; !ok {
				order = append(order, k)
			}
			byMine[k] = append(byMine[k], c)
		case "transfer":
			if int(c["rep"].(float64)) == 3 {
				transfers = append(transfers, c)
			}
		}
	}
	var mu sync.Mutex
	var firstErr error
	emit := func(evs []map[string]any, err error) {
		mu.Lock()
		defer mu.Unlock()
		if err != nil && firstErr == nil {
			firstErr = err
		}
		for _, ev := range evs {
			w.Emit(ev)
		}
	}
	parallel(len(order)+len(transfers)*reps+reps, workers, func(i int) {
		switch {
		case i < len(order):
			emit(versionHelper(byMine[order[i]], seed+int64(i)))
		case i < len(order)+len(transfers)*reps:
			j := i - len(order)
			emit(versionTransfer(transfers[j%len(transfers)], seed*31+int64(j)))
		default:
			emit(versionHelperRandom(seed*977 + int64(i)))
		}
	})
	return firstErr
}

func pvENR(seed int64, k string, vs []uint8, salt int) *enode.Node {
	rng := common.Rng(seed + int64(salt))
	key := mustKey(rng)
	var r enr.Record
	r.Set(enr.IP(stdnet.IP{10, 3, byte(salt / 200), byte(1 + salt%200)}))
	r.Set(enr.UDP(30303))
	switch k {
	case "set":
		r.Set(enr.WithEntry("pv", vs))
	case "bad":
		r.Set(enr.WithEntry("pv", []uint{1, 2, 3})) // an RLP list where a byte string is expected
	}
	if err := enode.SignV4(&r, key); err != nil {
		panic(err)
	}
	n, err := enode.New(enode.ValidSchemes, &r)
	if err != nil {
		panic(err)
	}
	return n
}

func queryThrice(p *portalwire.PortalProtocol, n *enode.Node) []map[string]any {
	res := []map[string]any{}
	for k := 0; k < 3; k++ {
		v, err := portalwire.VerifHighestVersion(p, n)
		res = append(res, map[string]any{"v": int(v), "err": err != nil})
	}
	return res
}

func versionHelper(cs []map[string]any, seed int64) ([]map[string]any, error) {
	sw := netsim.NewSwitch()
	mine := u8s(cs[0]["mine"])
	nd, err := netsim.NewNode(sw, netsim.NodeOpts{IP: "10.0.0.1", Port: 9001, Versions: mine, MaxUtp: 1})
	if err != nil {
		return nil, err
	}
	defer nd.Stop()
	var out []map[string]any
	// two passes over the peer list with fresh records (the cache is per node id): every kind of peer is also met AFTER
	// every other kind on the same instance, so a negotiation that leaves a trace in the node's own state (seed C19-3:
	// the own list sorted in place) shows in a later answer; the second pass runs in reverse order
	for pass := 0; pass < 2; pass++ {
		for j := range cs {
			i := j
			if pass == 1 {
				i = len(cs) - 1 - j
			}
			c := cs[i]
			th := c["theirs"].(map[string]any)
			n := pvENR(seed, th["k"].(string), u8s(th["s"]), pass*500+i)
			out = append(out, map[string]any{"ev": "ver.helper", "mine": ints(c["mine"]), "theirs": map[string]any{"k": th["k"], "s": ints(th["s"])},
				"res": queryThrice(nd.P, n), "generated": true, "pass": pass})
		}
	}
	return out, nil
}

// random subsets of 0..255 on both sides
func versionHelperRandom(seed int64) ([]map[string]any, error) {
	rng := common.Rng(seed)
	sw := netsim.NewSwitch()
	pick := func() []uint8 {
		n := 1 + rng.Intn(6)
		seen := map[uint8]bool{}
		var out []uint8
		for len(out) < n {
			v := uint8(rng.Intn(256))
			if rng.Intn(2) == 0 {
				v = uint8(rng.Intn(4))
			}
			if !seen[v] {
				seen[v] = true
				out = append(out, v)
			}
		}
		return out
	}
	mine := pick()
	nd, err := netsim.NewNode(sw, netsim.NodeOpts{IP: "10.0.0.1", Port: 9001, Versions: mine, MaxUtp: 1})
	if err != nil {
		return nil, err
	}
	defer nd.Stop()
	var out []map[string]any
	toInts := func(v []uint8) []int {
		r := []int{}
		for _, x := range v {
			r = append(r, int(x))
		}
		return r
	}
	for i := 0; i < 40; i++ {
		th := pick()
		if rng.Intn(3) == 0 { // make an overlap likely
			th = append(th[:1], mine[rng.Intn(len(mine))])
			if th[0] == th[1] {
				th = th[:1]
			}
		}
		n := pvENR(seed, "set", th, 1000+i)
		out = append(out, map[string]any{"ev": "ver.helper", "mine": toInts(mine), "theirs": map[string]any{"k": "set", "s": toInts(th)},
			"res": queryThrice(nd.P, n), "generated": false})
		if i%8 == 7 { // a peer without a version entry after listing peers: the base version is the first listed one
			n := pvENR(seed, "none", nil, 2000+i)
			out = append(out, map[string]any{"ev": "ver.helper", "mine": toInts(mine), "theirs": map[string]any{"k": "none", "s": []int{}},
				"res": queryThrice(nd.P, n), "generated": false})
		}
	}
	return out, nil
}

func versionTransfer(c map[string]any, seed int64) ([]map[string]any, error) {
	rng := common.Rng(seed)
	sw := netsim.NewSwitch()
	a, b := u8s(c["a"]), u8s(c["b"])
	A, err := netsim.NewNode(sw, netsim.NodeOpts{IP: "10.0.0.1", Port: 9001, Versions: a, MaxUtp: 4})
	if err != nil {
		return nil, err
	}
	defer A.Stop()
	B, err := netsim.NewNode(sw, netsim.NodeOpts{IP: "10.0.0.2", Port: 9002, Versions: b, MaxUtp: 4})
	if err != nil {
		return nil, err
	}
	defer B.Stop()
	var out []map[string]any
	for attempt := 1; attempt <= 3; attempt++ {
		ev := map[string]any{"ev": "ver.transfer", "a": ints(c["a"]), "b": ints(c["b"]), "attempt": attempt, "offer": "noobs", "offerEq": false,
			"fc": "noobs", "fcEq": false, "detail": ""}
		// one offer A -> B
		key := make([]byte, 8)
		rng.Read(key)
		content := make([]byte, 3000+rng.Intn(3000))
		rng.Read(content)
		req := &portalwire.OfferRequest{Kind: portalwire.TransientOfferRequestKind, Request: &portalwire.TransientOfferRequest{
			Contents: []*portalwire.ContentEntry{{ContentKey: key, Content: content}}}}
		type ores struct {
			acc []byte
			err error
		}
		och := make(chan ores, 1)
		go func() {
			acc, err := portalwire.VerifOffer(A.P, B.P.Self(), req, &portalwire.NoPermit{})
			och <- ores{acc, err}
		}()
		select {
		case r := <-och:
			if r.err != nil && isTimeout(r.err) {
				ev["offer"], ev["detail"] = "noobs", "timed out: "+r.err.Error() // the code's own timers under load: slowness is no observation (the run is judged per pairing)
			} else if r.err != nil {
				ev["offer"], ev["detail"] = "err", r.err.Error()
			} else {
				select {
				case el := <-B.Queue:
					ev["offer"] = "delivered"
					ev["offerEq"] = len(el.ContentKeys) == 1 && string(el.ContentKeys[0]) == string(key) && len(el.Contents) == 1 && string(el.Contents[0]) == string(content)
				case <-time.After(8 * time.Second):
					ev["offer"] = "accepted-noobs" // accepted but nothing arrived in time: no observation
				}
			}
		case <-time.After(10 * time.Second):
		}
		// one large find-content A <- B
		fkey := make([]byte, 9)
		rng.Read(fkey)
		big := make([]byte, 20000+rng.Intn(2000))
		rng.Read(big)
		cid := sha256.Sum256(fkey)
		if err := B.Store.Put(fkey, cid[:], big); err != nil {
			return nil, err
		}
		type fres struct {
			data []byte
			err  error
		}
		fch := make(chan fres, 1)
		go func() {
			_, res, err := portalwire.VerifFindContent(A.P, B.P.Self(), fkey)
			d, _ := res.([]byte)
			fch <- fres{d, err}
		}()
		select {
		case r := <-fch:
			if r.err != nil && isTimeout(r.err) {
				ev["fc"] = "noobs"
				ev["detail"] = fmt.Sprint(ev["detail"], " | fc timed out: ", r.err.Error())
			} else if r.err != nil {
				ev["fc"] = "err"
				ev["detail"] = fmt.Sprint(ev["detail"], " | fc: ", r.err.Error())
			} else {
				ev["fc"], ev["fcEq"] = "ok", string(r.data) == string(big)
			}
		case <-time.After(25 * time.Second):
		}
		out = append(out, ev)
	}
	return out, nil
}

// isTimeout: the error is one of the code's own timers running out (uTP dial / read deadlines, the request context)
func isTimeout(err error) bool {
	if errors.Is(err, context.DeadlineExceeded) {
		return true
	}
	m := strings.ToLower(err.Error())
	return strings.Contains(m, "deadline exceeded") || strings.Contains(m, "timeout") || strings.Contains(m, "timed out")
}
