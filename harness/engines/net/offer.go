package net

import (
	"context"
	"crypto/sha256"
	"encoding/binary"
	"fmt"
	"math/rand"
	"sync"
	"time"

	bitfield "github.com/OffchainLabs/go-bitfield"
	"github.com/ethereum/go-ethereum/p2p/enode"
	"github.com/holiman/uint256"
	"github.com/zen-eth/shisui/portalwire"

	"verifharness/common"
	"verifharness/netsim"
	"verifharness/tracelog"
)

// ---- event collection through the verif hooks -------------------------------------------------------

type permitCounts struct{ acqIn, relIn, acqOut, relOut int }

type hookState struct {
	mu       sync.Mutex
	counts   map[interface{}]*permitCounts // per utpController
	learn    chan interface{}              // receives the controller pointer while a node is being registered
	gates    map[string]chan struct{}      // offer.recv.start gates by first content key
	recvEnd  map[string]int                // offer.recv.end events by first content key
	returns  int                           // offer.return events
	tStart   int
	tEnd     int
	maxIn    map[interface{}]int
	maxOut   map[interface{}]int
	listener func(name string, arg interface{})
}

var hooks = &hookState{counts: map[interface{}]*permitCounts{}, gates: map[string]chan struct{}{}, recvEnd: map[string]int{},
	maxIn: map[interface{}]int{}, maxOut: map[interface{}]int{}}

func installHooks() {
	portalwire.VerifEvent = func(name string, arg interface{}) {
		h := hooks
		h.mu.Lock()
		switch name {
		case "permit.acquire.in", "permit.release.in", "permit.acquire.out", "permit.release.out":
			c := h.counts[arg]
			if c == nil {
				c = &permitCounts{}
				h.counts[arg] = c
			}
			switch name {
			case "permit.acquire.in":
				c.acqIn++
				if c.acqIn-c.relIn > h.maxIn[arg] {
					h.maxIn[arg] = c.acqIn - c.relIn
				}
			case "permit.release.in":
				c.relIn++
			case "permit.acquire.out":
				c.acqOut++
				if c.acqOut-c.relOut > h.maxOut[arg] {
					h.maxOut[arg] = c.acqOut - c.relOut
				}
			case "permit.release.out":
				c.relOut++
			}
			if h.learn != nil {
				select {
				case h.learn <- arg:
				default:
				}
			}
			h.mu.Unlock()
			return
		case "offer.recv.start":
			keys := arg.([][]byte)
			var g chan struct{}
			if len(keys) > 0 {
				g = h.gates[string(keys[0])]
			}
			h.mu.Unlock()
			if g != nil {
				select {
				case <-g:
				case <-time.After(20 * time.Second):
				}
			}
			return
		case "offer.recv.end":
			keys := arg.([][]byte)
			if len(keys) > 0 {
				h.recvEnd[string(keys[0])]++
			}
		case "offer.return":
			h.returns++
		case "offer.transfer.end":
			h.tEnd++
		}
		h.mu.Unlock()
	}
}

// controllerOf learns the utpController of a node by taking and returning one slot (limit > 0 only).
func controllerOf(n *netsim.Node) interface{} {
	h := hooks
	h.mu.Lock()
	ch := make(chan interface{}, 4)
	h.learn = ch
	h.mu.Unlock()
	var ctl interface{}
	if p, ok := n.P.Utp.GetInboundPermit(); ok {
		select {
		case ctl = <-ch:
		case <-time.After(time.Second):
		}
		p.Release()
	}
	h.mu.Lock()
	h.learn = nil
	if ctl != nil { // forget the probe
		*h.counts[ctl] = permitCounts{}
		h.maxIn[ctl], h.maxOut[ctl] = 0, 0
	}
	h.mu.Unlock()
	return ctl
}

func heldIn(ctl interface{}) int {
	hooks.mu.Lock()
	defer hooks.mu.Unlock()
	if c := hooks.counts[ctl]; c != nil {
		return c.acqIn - c.relIn
	}
	return 0
}
func releasedIn(ctl interface{}) int {
	hooks.mu.Lock()
	defer hooks.mu.Unlock()
	if c := hooks.counts[ctl]; c != nil {
		return c.relIn
	}
	return 0
}
func heldOut(ctl interface{}) int {
	hooks.mu.Lock()
	defer hooks.mu.Unlock()
	if c := hooks.counts[ctl]; c != nil {
		return c.acqOut - c.relOut
	}
	return 0
}

// freeSlots measures the obtainable slots through the exported API: take until refused, give all back.
func freeSlots(get func() (portalwire.Permit, bool)) int {
	var ps []portalwire.Permit
	for len(ps) < 5000 {
		p, ok := get()
		if !ok {
			break
		}
		ps = append(ps, p)
	}
	for _, p := range ps {
		p.Release()
	}
	return len(ps)
}

// ---- C09: the accepting side ------------------------------------------------------------------------

type okey struct {
	key     []byte
	cid     [32]byte
	content []byte
	stored  bool
	inrange bool
}

func runOffer(w *tracelog.Writer, seed int64, scenarios, workers int, slow bool) error {
	installHooks()
	defer func() { portalwire.VerifEvent = nil }()
	var mu sync.Mutex
	var firstErr error
	parallel(scenarios, workers, func(i int) {
		evs, err := offerScenario(i, seed*2654435761+int64(i), slow)
		mu.Lock()
		defer mu.Unlock()
		if err != nil && firstErr == nil {
			firstErr = err
		}
		for _, ev := range evs {
			ev["t"] = i
			w.Emit(ev)
		}
	})
	return firstErr
}

func offerScenario(t int, seed int64, slow bool) ([]map[string]any, error) {
	rng := common.Rng(seed)
	sw := netsim.NewSwitch()
	limit := []int{0, 1, 2, 8}[rng.Intn(4)]
	qcap := []int{1, 50, 50}[rng.Intn(3)]
	va := [][]uint8{{0}, {1}, {0, 1}}[rng.Intn(3)]
	race := t%5 == 4 // forced interleaving: the receive goroutine of an accepted offer is held at its start
	if race {
		limit, va, qcap = 8, []uint8{1}, 50
	}
	// TLC's EndClearsOfferedKeys counterexample (MC_Offer_DevEndClears): offer 0 is accepted for key a and kept waiting,
	// offer 1 contains a (declined, in flight) plus a fresh key and its transfer ends at once (wrong item count),
	// offer 2 contains a again - it must still not be accepted
	overlap := t%5 == 3
	if overlap {
		limit, va, qcap = 8, []uint8{1}, 50
	}
	// every other overlap scenario mixes versions: the held offer comes from a version-0 offerer, the offers that follow from a
	// version-1 one - "already being received" does not depend on who sends the bytes or in which version (sweep mutant C/24-C09)
	mixed := overlap && t%10 == 8
	st := &netsim.RadiusStore{}
	B, err := netsim.NewNode(sw, netsim.NodeOpts{IP: "10.0.0.2", Port: 9002, MaxUtp: limit, QueueCap: qcap, Store: st})
	if err != nil {
		return nil, err
	}
	defer B.Stop()
	inner, err := netsim.NewMemStore(B.P.Self().ID(), 100)
	if err != nil {
		return nil, err
	}
	st.ContentStorage = inner
	A, err := netsim.NewNode(sw, netsim.NodeOpts{IP: "10.0.0.1", Port: 9001, Versions: va, MaxUtp: 16})
	if err != nil {
		return nil, err
	}
	defer A.Stop()
	var A0 *netsim.Node
	if mixed {
		A0, err = netsim.NewNode(sw, netsim.NodeOpts{IP: "10.0.0.3", Port: 9003, Versions: []uint8{0}, MaxUtp: 16})
		if err != nil {
			return nil, err
		}
		defer A0.Stop()
	}
	ctl := controllerOf(B)
	bid := B.P.Self().ID()
	// radius 256 leaves the (many) ids at log distance 256 outside; the maximum radius admits everything
	radius := uint256.MustFromHex("0xffffffffffffffffffffffffffffffffffffffffffffffffffffffffffffffff")
	if rng.Intn(2) == 0 {
		radius = uint256.NewInt(256)
	}
	st.SetRadius(radius)
	universe := make([]*okey, 14)
	for i := range universe {
		k := &okey{key: make([]byte, 4+rng.Intn(40))}
		rng.Read(k.key)
		k.key[0] = byte(t) // distinguishable across scenarios
		k.cid = sha256.Sum256(k.key)
		n := []int{0, 1, 300, 3000, 40000}[rng.Intn(5)]
		k.content = make([]byte, n)
		rng.Read(k.content)
		k.inrange = portalwire.VerifInRange(bid, radius, k.cid[:]) // the in-range test as the node computes it (its metric is C06's business)
		if rng.Intn(10) < 3 {
			if err := inner.Put(k.key, k.cid[:], k.content); err == nil {
				k.stored = true
			}
		}
		universe[i] = k
	}
	version := 0
	for _, v := range va {
		if v == 1 {
			version = 1
		}
	}
	var out []map[string]any
	inflight := map[int]bool{}
	// sureUntil[k]: until then key k is certainly marked as being received.  The receive goroutine of the offer that was
	// accepted for k (request sent at tSend) keeps the marks at least until its uTP accept times out, 15 s after it
	// started, and it started after tSend; 10 s leaves a margin.  After that the harness does not know (the marks may be
	// gone), so the fact handed to the judge is "in flight for sure", never a guess.
	sureUntil := map[int]time.Time{}
	type held struct {
		keys []int
		cid  uint16
		from *netsim.Node
	}
	var holds []held
	transfer := func(from *netsim.Node, cid uint16, items [][]byte) error {
		ctx, cancel := context.WithTimeout(context.Background(), 12*time.Second)
		defer cancel()
		stream, err := from.P.Utp.DialWithCid(ctx, B.P.Self(), cid)
		if err != nil {
			return err
		}
		_, err = stream.Write(ctx, portalwire.VerifEncodeContents(items))
		stream.Close()
		return err
	}
	waitDelivery := func(d time.Duration) *portalwire.ContentElement {
		select {
		case el := <-B.Queue:
			return el
		case <-time.After(d):
			return nil
		}
	}
	noffers := 4 + rng.Intn(3)
	for o := 0; o < noffers; o++ {
		n := []int{0, 1, 2, 3, 5, 14}[rng.Intn(6)]
		if race {
			n = 2 + rng.Intn(2)
		}
		perm := rng.Perm(len(universe))[:n]
		if race && o == 1 && len(holds) > 0 { // overlap with the offer whose goroutine is being held
			perm[0] = holds[0].keys[0]
		}
		if overlap && o <= 2 {
			if o == 0 {
				perm = rng.Perm(len(universe))[:2]
			} else if len(holds) > 0 {
				perm = []int{holds[0].keys[0]}
				for _, c := range rng.Perm(len(universe)) { // plus a key that is acceptable right now
					if c != perm[0] && !inflight[c] && !universe[c].stored && universe[c].inrange {
						perm = append(perm, c)
						break
					}
				}
			}
			n = len(perm)
		}
		keys := make([][]byte, n)
		kfacts := []map[string]any{}
		for i, ki := range perm {
			keys[i] = universe[ki].key
			kfacts = append(kfacts, map[string]any{"k": ki, "inrange": universe[ki].inrange, "stored": universe[ki].stored, "inflight": inflight[ki]})
		}
		if len(B.Queue) >= qcap && rng.Intn(3) == 0 { // sometimes the consumer catches up
			for len(B.Queue) > 0 {
				<-B.Queue
			}
		}
		free := limit - heldIn(ctl)
		relBefore := releasedIn(ctl)
		qfull := len(B.Queue) >= qcap
		from, ver := A, version
		if mixed && o == 0 {
			from, ver = A0, 0
		}
		ev := map[string]any{"ev": "of.offer", "o": o, "version": ver, "keys": kfacts, "limit": limit, "free": free, "queuefull": qfull,
			"decoded": false, "verdicts": []int{}, "cid": 0, "transfer": "none", "delivered": false, "dkeys": []int{}, "dequal": false, "detail": "", "race": race}
		var gate chan struct{}
		if race && o == 0 && n > 0 {
			gate = make(chan struct{})
			hooks.mu.Lock()
			for _, k := range keys { // the goroutine reports the accepted keys; any of the offered ones may come first
				hooks.gates[string(k)] = gate
			}
			hooks.mu.Unlock()
		}
		offer := &portalwire.Offer{ContentKeys: keys}
		ob, err := offer.MarshalSSZ()
		if err != nil {
			return nil, err
		}
		tSend := time.Now()
		resp, err := from.D5.TalkRequest(B.P.Self(), string(portalwire.History), append([]byte{portalwire.OFFER}, ob...))
		tReply := time.Now()
		for i, ki := range perm {
			kfacts[i]["inflight"] = inflight[ki] && tReply.Before(sureUntil[ki])
		}
		// a receive goroutine that ended between the snapshot and the handler gave its slot back: upper bound of the free slots
		free += releasedIn(ctl) - relBefore
		ev["free"] = free
		if err != nil {
			ev["ev"], ev["detail"] = "of.noobs", err.Error()
			out = append(out, ev)
			continue
		}
		var verdicts []int // 0 = accepted, other codes as in version 1; version 0: 0 accepted / 1 declined
		var cidv uint16
		if len(resp) > 0 && resp[0] == portalwire.ACCEPT {
			if ver == 1 {
				acc := &portalwire.AcceptV1{}
				if err := acc.UnmarshalSSZ(resp[1:]); err == nil {
					ev["decoded"] = true
					for _, c := range acc.ContentKeys {
						verdicts = append(verdicts, int(c))
					}
					cidv = binary.BigEndian.Uint16(acc.ConnectionId)
				}
			} else {
				acc := &portalwire.Accept{}
				if err := acc.UnmarshalSSZ(resp[1:]); err == nil {
					ev["decoded"] = true
					bl := bitfield.Bitlist(acc.ContentKeys)
					for i := uint64(0); i < bl.Len(); i++ {
						if bl.BitAt(i) {
							verdicts = append(verdicts, 0)
						} else {
							verdicts = append(verdicts, 1)
						}
					}
					cidv = binary.BigEndian.Uint16(acc.ConnectionId)
				}
			}
		} else {
			ev["detail"] = fmt.Sprintf("reply %x", resp)
		}
		if verdicts == nil {
			verdicts = []int{}
		}
		ev["verdicts"], ev["cid"] = verdicts, int(cidv)
		var accIdx []int
		var items [][]byte
		for i, v := range verdicts {
			if v == 0 && i < len(perm) {
				accIdx = append(accIdx, perm[i])
				items = append(items, universe[perm[i]].content)
			}
		}
		if len(accIdx) > 0 && (cidv != 0 || free > 0) {
			kind := []string{"correct", "correct", "correct", "short", "long", "hold"}[rng.Intn(6)]
			if race && o == 0 {
				kind = "hold"
			}
			if overlap && o == 0 {
				kind = "hold"
			} else if overlap && o == 1 {
				kind = "long"
			}
			ev["transfer"] = kind
			for _, ki := range accIdx {
				inflight[ki] = true
				sureUntil[ki] = tSend.Add(10 * time.Second)
			}
			switch kind {
			case "hold":
				holds = append(holds, held{accIdx, cidv, from})
			case "correct", "short", "long":
				send := items
				if kind == "short" {
					send = items[:len(items)-1]
					if len(items) == 1 { // one item less than one: send a stream that decodes to zero items
						send = [][]byte{}
					}
				} else if kind == "long" {
					send = append(append([][]byte{}, items...), []byte{9, 9, 9})
				}
				if err := transfer(from, cidv, send); err != nil {
					ev["detail"] = "transfer: " + err.Error()
					ev["transfer"] = kind + "-failed"
				} else if qfull {
					// the validation queue is full: nothing can be handed over, the harness-owned filler stays where it is
				} else if el := waitDelivery(map[bool]time.Duration{true: 4 * time.Second, false: 700 * time.Millisecond}[kind == "correct"]); el != nil {
					ev["delivered"] = true
					dk := []int{}
					eq := len(el.ContentKeys) == len(el.Contents) && el.Node == from.P.Self().ID()
					for i, k := range el.ContentKeys {
						found := -1
						for ui, u := range universe {
							if string(u.key) == string(k) {
								found = ui
							}
						}
						dk = append(dk, found)
						if found < 0 || i >= len(el.Contents) || string(el.Contents[i]) != string(universe[found].content) {
							eq = false
						}
					}
					ev["dkeys"], ev["dequal"] = dk, eq
					if qcap == 1 && rng.Intn(2) == 0 { // fill the validation queue for the next offers
						select {
						case B.Queue <- &portalwire.ContentElement{}:
						default:
						}
					}
				}
				for _, ki := range accIdx {
					inflight[ki] = false
				}
			}
		}
		accList := []int{}
		accList = append(accList, accIdx...)
		ev["accepted"] = accList
		out = append(out, ev)
		if race && o >= 1 { // the second offer has been answered: let the held goroutine go on
			hooks.mu.Lock()
			for k, g := range hooks.gates {
				if len(k) > 0 && k[0] == byte(t) {
					select {
					case <-g:
					default:
						close(g)
					}
					delete(hooks.gates, k)
				}
			}
			hooks.mu.Unlock()
		}
	}
	hooks.mu.Lock()
	for k, g := range hooks.gates {
		if len(k) > 0 && k[0] == byte(t) {
			select {
			case <-g:
			default:
				close(g)
			}
			delete(hooks.gates, k)
		}
	}
	hooks.mu.Unlock()
	// complete the held transfers
	for _, h := range holds {
		var items [][]byte
		for _, ki := range h.keys {
			items = append(items, universe[ki].content)
		}
		ev := map[string]any{"ev": "of.late", "accepted": h.keys, "delivered": false, "dkeys": []int{}, "dequal": false, "detail": ""}
		for len(B.Queue) > 0 {
			<-B.Queue
		}
		if err := transfer(h.from, h.cid, items); err != nil {
			ev["detail"] = err.Error()
		} else if el := waitDelivery(4 * time.Second); el != nil {
			ev["delivered"] = true
			dk := []int{}
			eq := len(el.ContentKeys) == len(el.Contents)
			for i, k := range el.ContentKeys {
				found := -1
				for ui, u := range universe {
					if string(u.key) == string(k) {
						found = ui
					}
				}
				dk = append(dk, found)
				if found < 0 || i >= len(el.Contents) || string(el.Contents[i]) != string(universe[found].content) {
					eq = false
				}
			}
			ev["dkeys"], ev["dequal"] = dk, eq
		}
		out = append(out, ev)
	}
	// a REAL offerer: node A runs the production offer path (offer -> processOffer -> transfer goroutine) towards B with a
	// batch of which B declines some keys (already stored) - the accepted keys are then not a prefix of the offer, and what
	// reaches B's validation queue must still be exactly the accepted keys paired with their own contents (sweep mutant
	// 28-C09: the sender picked the contents by position in the accept list)
	if !race && !overlap && limit > 0 && heldIn(ctl) == 0 {
		for len(B.Queue) > 0 {
			<-B.Queue
		}
		n := 3 + rng.Intn(3)
		var entries []*portalwire.ContentEntry
		kf := []map[string]any{}
		expect := []int{}
		contents := map[string][]byte{}
		keyIdx := map[string]int{}
		for i := 0; i < n; i++ {
			k := make([]byte, 6+rng.Intn(20))
			rng.Read(k)
			k[0], k[1] = byte(t), 0xee
			cid := sha256.Sum256(k)
			c := make([]byte, []int{1, 200, 2000, 30000}[rng.Intn(4)])
			rng.Read(c)
			inr := portalwire.VerifInRange(bid, radius, cid[:])
			stored := false
			if i == 0 || rng.Intn(3) == 0 { // the first key is always declined: the accepted ones never form a prefix
				if err := inner.Put(k, cid[:], c); err == nil {
					stored = true
				}
			}
			entries = append(entries, &portalwire.ContentEntry{ContentKey: k, Content: c})
			kf = append(kf, map[string]any{"k": i, "inrange": inr, "stored": stored, "inflight": false})
			if inr && !stored {
				expect = append(expect, i)
			}
			contents[string(k)] = c
			keyIdx[string(k)] = i
		}
		req := &portalwire.OfferRequest{Kind: portalwire.TransientOfferRequestKind, Request: &portalwire.TransientOfferRequest{Contents: entries}}
		// every other scenario the offer is a PERSISTENT one (by key: the contents are read from the offerer's own store when the
		// ACCEPT arrives) and the offerer no longer holds the LAST key the receiver will accept: the stream then carries an empty
		// item in that key's place, so that the item count still matches and the other accepted contents arrive under their keys
		lost := -1
		if t%2 == 1 {
			var keys [][]byte
			if len(expect) >= 2 {
				lost = expect[len(expect)-1]
			}
			for i, en := range entries {
				keys = append(keys, en.ContentKey)
				if i == lost {
					contents[string(en.ContentKey)] = []byte{}
					continue
				}
				cid := sha256.Sum256(en.ContentKey)
				if err := A.Store.Put(en.ContentKey, cid[:], en.Content); err != nil {
					return nil, fmt.Errorf("offerer prefill: %w", err)
				}
			}
			req = &portalwire.OfferRequest{Kind: portalwire.PersistOfferRequestKind, Request: &portalwire.PersistOfferRequest{ContentKeys: keys}}
		}
		ev := map[string]any{"ev": "of.real", "keys": kf, "expect": expect, "delivered": false, "dkeys": []int{}, "dequal": false, "detail": "", "version": version,
			"persistent": t%2 == 1, "lost": lost}
		errCh := make(chan error, 1)
		go func() {
			_, err := portalwire.VerifOffer(A.P, B.P.Self(), req, &portalwire.NoPermit{})
			errCh <- err
		}()
		select {
		case err := <-errCh:
			if err != nil {
				ev["detail"] = err.Error()
			}
		case <-time.After(8 * time.Second):
			ev["detail"] = "offer did not return"
		}
		if len(expect) > 0 && ev["detail"] == "" {
			if el := waitDelivery(6 * time.Second); el != nil {
				ev["delivered"] = true
				dk := []int{}
				eq := len(el.ContentKeys) == len(el.Contents)
				for i, k := range el.ContentKeys {
					idx, ok := keyIdx[string(k)]
					if !ok {
						idx = -1
					}
					dk = append(dk, idx)
					if !ok || i >= len(el.Contents) || string(el.Contents[i]) != string(contents[string(k)]) {
						eq = false
					}
				}
				ev["dkeys"], ev["dequal"] = dk, eq
			}
		}
		out = append(out, ev)
	}
	_ = rand.Int
	_ = enode.ID{}
	return out, nil
}
