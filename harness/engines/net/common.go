// Package net runs scenarios between real PortalProtocol instances (and scripted raw discv5 peers) over the
// in-memory switch of package netsim, and records observations for the Trace_* judges of the network
// family (C08 C09 C11 C16 C19 C20, and the in-range helper of C06).
package net

import (
	"bufio"
	"context"
	"crypto/ecdsa"
	"encoding/json"
	"flag"
	"fmt"
	"math/rand"
	stdnet "net"
	"os"
	"sync"
	"time"

	"github.com/ethereum/go-ethereum/crypto"
	"github.com/ethereum/go-ethereum/p2p/enode"
	"github.com/ethereum/go-ethereum/p2p/enr"
	"github.com/ethereum/go-ethereum/rlp"

	"verifharness/common"
	"verifharness/tracelog"
)

func init() { common.Register("net", Main) }

// readCases loads ndjson cases into generic maps.
func readCases(path string) ([]map[string]any, error) {
	if path == "" {
		return nil, nil
	}
	f, err := os.Open(path)
	if err != nil {
		return nil, err
	}
	defer f.Close()
	sc := bufio.NewScanner(f)
	sc.Buffer(make([]byte, 1<<20), 1<<26)
	var out []map[string]any
	for sc.Scan() {
		if len(sc.Bytes()) == 0 {
			continue
		}
		var m map[string]any
		if err := json.Unmarshal(sc.Bytes(), &m); err != nil {
			return nil, err
		}
		out = append(out, m)
	}
	return out, sc.Err()
}

func ints(v any) []int {
	out := []int{}
	if a, ok := v.([]any); ok {
		for _, x := range a {
			if f, ok := x.(float64); ok {
				out = append(out, int(f))
			}
		}
	}
	return out
}
func u8s(v any) []uint8 {
	var out []uint8
	for _, x := range ints(v) {
		out = append(out, uint8(x))
	}
	return out
}

// mkENR builds a validly signed ENR of (about) the wanted RLP size on a LAN address.
func mkENR(rng *rand.Rand, key *ecdsa.PrivateKey, ip stdnet.IP, port int, size int, seq uint64) *enode.Node {
	if key == nil {
		key = mustKey(rng)
	}
	build := func(pad int) (*enode.Node, int) {
		var r enr.Record
		r.Set(enr.IP(ip))
		r.Set(enr.UDP(port))
		if pad >= 0 {
			r.Set(enr.WithEntry("zz", make([]byte, pad)))
		}
		r.SetSeq(seq)
		if err := enode.SignV4(&r, key); err != nil {
			return nil, 0
		}
		n, err := enode.New(enode.ValidSchemes, &r)
		if err != nil {
			return nil, 0
		}
		b, _ := rlp.EncodeToBytes(n.Record())
		return n, len(b)
	}
	n, sz := build(-1)
	if size <= sz {
		return n
	}
	best := n
	for pad := 0; pad < 300; pad++ {
		m, s := build(pad)
		if m == nil || s > size {
			break
		}
		best = m
		if s == size {
			break
		}
	}
	return best
}

func mustKey(rng *rand.Rand) *ecdsa.PrivateKey {
	for {
		var b [32]byte
		rng.Read(b[:])
		k, err := crypto.ToECDSA(b[:])
		if err == nil {
			return k
		}
	}
}

func enrSize(n *enode.Node) int {
	b, _ := rlp.EncodeToBytes(n.Record())
	return len(b)
}

// parallel runs f(i) for i in [0,n) on `workers` goroutines.
func parallel(n, workers int, f func(i int)) {
	var wg sync.WaitGroup
	ch := make(chan int)
	for w := 0; w < workers; w++ {
		wg.Add(1)
		go func() {
			defer wg.Done()
			for i := range ch {
				f(i)
			}
		}()
	}
	for i := 0; i < n; i++ {
		ch <- i
	}
	close(ch)
	wg.Wait()
}

func contextWithTimeout(d time.Duration) (context.Context, context.CancelFunc) {
	return context.WithTimeout(context.Background(), d)
}

func Main(args []string) error {
	fs := flag.NewFlagSet("net", flag.ContinueOnError)
	mode := fs.String("mode", "", "findcontent|offer|findnodes|permits|versions|gossip|inrange")
	out := fs.String("out", "trace.ndjson", "trace output")
	in := fs.String("in", "", "generated cases (ndjson)")
	seed := fs.Int64("seed", 1, "seed")
	n := fs.Int("n", 1, "concretisations per case / number of random scenarios")
	workers := fs.Int("workers", 8, "parallel scenarios")
	slow := fs.Bool("slow", false, "include scenarios that wait for the code's own 15 s / 60 s timeouts")
	child := fs.Int("child", -1, "internal: index of this child process (permits)")
	if err := fs.Parse(args); err != nil {
		return err
	}
	cases, err := readCases(*in)
	if err != nil {
		return err
	}
	w, err := tracelog.Create(*out)
	if err != nil {
		return err
	}
	defer w.Close()
	switch *mode {
	case "findcontent":
		return runFindContent(w, cases, *seed, *n, *workers)
	case "inrange":
		return runInRange(w, *seed, *n)
	case "findnodes":
		return runFindNodes(w, cases, *seed, *n, *workers)
	case "pipeline":
		return runPipeline(w, *out, *seed, *n, *workers, *child)
	case "permits":
		return runPermits(w, *out, *seed, *n, *workers, *slow, *child)
	case "offer":
		return runOffer(w, *seed, *n, *workers, *slow)
	case "gossip":
		return runGossip(w, *seed, *n)
	case "versions":
		return runVersions(w, cases, *seed, *n, *workers)
	}
	_ = slow
	return fmt.Errorf("unknown mode %q", *mode)
}
