// Package tracelog writes ndjson traces: one JSON object per line, sequence numbers taken under one mutex.
package tracelog

import (
	"bufio"
	"encoding/json"
	"os"
	"sync"
)

type Writer struct {
	mu  sync.Mutex
	f   *os.File
	w   *bufio.Writer
	seq int
}

func Create(path string) (*Writer, error) {
	f, err := os.Create(path)
	if err != nil {
		return nil, err
	}
	return &Writer{f: f, w: bufio.NewWriterSize(f, 1<<20)}, nil
}

// Emit appends one event; "seq" is assigned under the writer's mutex.
func (w *Writer) Emit(ev map[string]any) {
	w.mu.Lock()
	defer w.mu.Unlock()
	w.seq++
	ev["seq"] = w.seq
	b, err := json.Marshal(ev)
	if err != nil {
		panic(err)
	}
	w.w.Write(b)
	w.w.WriteByte('\n')
}

func (w *Writer) Len() int { w.mu.Lock(); defer w.mu.Unlock(); return w.seq }

func (w *Writer) Close() error {
	w.mu.Lock()
	defer w.mu.Unlock()
	if err := w.w.Flush(); err != nil {
		return err
	}
	return w.f.Close()
}

// Ints renders bytes as a JSON array of small ints (TLC reads them as a sequence of naturals).
func Ints(b []byte) []int {
	r := make([]int, len(b))
	for i, x := range b {
		r[i] = int(x)
	}
	return r
}
