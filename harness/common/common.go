// Package common holds the engine registry and small helpers shared by all engines.
package common

import (
	"crypto/sha256"
	"encoding/binary"
	"math/rand"
	"runtime"
	"strconv"
	"strings"
)

// Engines maps an engine name to its entry point (args after the engine name).
var Engines = map[string]func(args []string) error{}

func Register(name string, f func(args []string) error) { Engines[name] = f }

// Tag is a 31-bit fingerprint of a byte string (first 4 bytes of SHA-256, shifted to stay a TLC int).
func Tag(v []byte) int {
	h := sha256.Sum256(v)
	return int(binary.BigEndian.Uint32(h[:4]) >> 1)
}

func Rng(seed int64) *rand.Rand { return rand.New(rand.NewSource(seed)) }

// Goid returns the current goroutine's id (parsed from the stack header). Used only by schedule gates.
func Goid() int64 {
	var buf [64]byte
	n := runtime.Stack(buf[:], false)
	f := strings.Fields(string(buf[:n]))
	if len(f) < 2 {
		return -1
	}
	id, _ := strconv.ParseInt(f[1], 10, 64)
	return id
}
