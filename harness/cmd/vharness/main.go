// vharness drives the real zen-eth/shisui code (built from /repo with -tags verif) and records what it did.
//
//	vharness <engine> [flags]
package main

import (
	"fmt"
	"os"
	"sort"

	"verifharness/common"
	_ "verifharness/engines/beaconstore"
	_ "verifharness/engines/framing"
	_ "verifharness/engines/headerproof"
	_ "verifharness/engines/history"
	_ "verifharness/engines/intake"
	_ "verifharness/engines/lightclient"
	_ "verifharness/engines/lookup"
	_ "verifharness/engines/net"
	_ "verifharness/engines/ssz"
	_ "verifharness/engines/stateproof"
	_ "verifharness/engines/store"
	_ "verifharness/engines/table"
	_ "verifharness/engines/wire"
)

func main() {
	if len(os.Args) < 2 {
		names := make([]string, 0)
		for n := range common.Engines {
			names = append(names, n)
		}
		sort.Strings(names)
		fmt.Fprintln(os.Stderr, "usage: vharness <engine> [flags]; engines:", names)
		os.Exit(2)
	}
	e, ok := common.Engines[os.Args[1]]
	if !ok {
		fmt.Fprintln(os.Stderr, "unknown engine", os.Args[1])
		os.Exit(2)
	}
	if err := e(os.Args[2:]); err != nil {
		fmt.Fprintln(os.Stderr, "vharness:", err)
		os.Exit(3)
	}
}
