#!/usr/bin/env python3
"""record_seed.py <seed id> <property> "<pkgs>" "<detection text>" : writes seeded/<id>/meta.json from the agent's meta and confirm.log"""
import json, os, sys
sid, prop, pk, det = sys.argv[1:5]
d = '/verif/seeded/' + sid
a = json.load(open(d + '/meta.agent.json')) if os.path.exists(d + '/meta.agent.json') else json.load(open(d + '/meta.json'))
res = [l for l in open(d + '/confirm.log') if l.startswith('RESULT')][-1].strip()
m = {'id': sid, 'property': prop, 'summary': a.get('summary'), 'needs': a.get('needs'), 'files': a.get('files'),
     'author': 'independent sub-agent given only the property text and a scratch worktree',
     'confirmed_by_me': res,
     'what_i_ran': 'bin/confirm_seed.sh (demo on clean tree passes, demo on patched tree fails, go build/vet and the existing tests of %s pass with the patch apart from the two baseline always-fail portalwire tests); then bin/try_seed.sh %s %s (bin/vcheck --tier quick from a scratch copy of /verif against a scratch worktree of /repo with patch.diff applied; both removed afterwards)' % (pk, sid, prop),
     'detection': det}
json.dump(m, open(d + '/meta.json', 'w'), indent=1)
if os.path.exists(d + '/meta.agent.json'):
    os.remove(d + '/meta.agent.json')
print('recorded', sid)
