#!/usr/bin/env python3
"""merge_builder.py <workspace> : merge a builder agent's deliverables (new files + the few shared-file edits) into /verif and /repo."""
import json, os, re, shutil, subprocess, sys
W = sys.argv[1]
BASE = sys.argv[2] if len(sys.argv) > 2 else "a26a74e"
V, R = "/verif", "/repo"
bv, br = os.path.join(W, "verif"), os.path.join(W, "repo")
copied = []
for root, dirs, files in os.walk(bv):
    dirs[:] = [d for d in dirs if d not in (".git", ".work", "__pycache__", "replays", "evidence", "seeded")]
    for f in files:
        src = os.path.join(root, f)
        rel = os.path.relpath(src, bv)
        dst = os.path.join(V, rel)
        if rel in ("harness/go.sum", "harness/go.mod", "MANIFEST.json", "KNOWN_FINDINGS.json", "bin/mkmanifest", "harness/cmd/vharness/main.go"):
            continue
        if not os.path.exists(dst):
            os.makedirs(os.path.dirname(dst), exist_ok=True)
            shutil.copy2(src, dst)
            copied.append(rel)
        else:
            # changed relative to the base commit?
            try:
                base = subprocess.check_output(["git", "-C", V, "show", "%s:%s" % (BASE, rel)], stderr=subprocess.DEVNULL)
            except subprocess.CalledProcessError:
                base = None
            if base is not None and open(src, "rb").read() != base:
                print("CONFLICT/CHANGED shared file (merge by hand):", rel)
# imports in main.go
m = open(os.path.join(bv, "harness/cmd/vharness/main.go")).read()
mine = open(os.path.join(V, "harness/cmd/vharness/main.go")).read()
for imp in re.findall(r'\t_ "verifharness/engines/[a-z0-9_]+"\n', m):
    if imp not in mine:
        mine = mine.replace('\t_ "verifharness/engines/store"\n', imp + '\t_ "verifharness/engines/store"\n')
        print("import added:", imp.strip())
open(os.path.join(V, "harness/cmd/vharness/main.go"), "w").write(mine)
# mkmanifest CHECKS.update blocks
bm = open(os.path.join(bv, "bin/mkmanifest")).read()
base_m = subprocess.check_output(["git", "-C", V, "show", "%s:bin/mkmanifest" % BASE]).decode()
mm = open(os.path.join(V, "bin/mkmanifest")).read()
for blk in re.findall(r'CHECKS\.update\(\{\n.*?\n\}\)\n', bm, re.S):
    if blk not in base_m and blk not in mm:
        mm = mm.replace("NOT_YET = {", blk + "\nNOT_YET = {", 1)
        print("manifest block added:", re.findall(r'"(C\d+)": dict', blk))
open(os.path.join(V, "bin/mkmanifest"), "w").write(mm)
# known findings
bk = json.load(open(os.path.join(bv, "KNOWN_FINDINGS.json")))
k = json.load(open(os.path.join(V, "KNOWN_FINDINGS.json")))
have = {f["id"] + f["property"] for f in k["findings"]}
for f in bk["findings"]:
    if f["id"] + f["property"] not in have:
        k["findings"].append(f)
        print("known finding added:", f["id"], f["property"], f.get("status"))
json.dump(k, open(os.path.join(V, "KNOWN_FINDINGS.json"), "w"), indent=1)
# go.mod requirements
bg = open(os.path.join(bv, "harness/go.mod")).read().replace(os.path.join(W, "repo"), "/repo")
if bg != open(os.path.join(V, "harness/go.mod")).read():
    print("NOTE: harness/go.mod differs (check requires):")
    subprocess.call(["diff", os.path.join(V, "harness/go.mod"), "-"], stdin=subprocess.PIPE) if False else None
# hook files in repo
out = subprocess.check_output(["git", "-C", br, "status", "--short"]).decode()
for ln in out.splitlines():
    st, path = ln[:2], ln[3:]
    if st == "??" and not path.startswith("seed"):
        dst = os.path.join(R, path)
        os.makedirs(os.path.dirname(dst), exist_ok=True)
        if os.path.isdir(os.path.join(br, path)):
            shutil.copytree(os.path.join(br, path), dst, dirs_exist_ok=True)
        else:
            shutil.copy2(os.path.join(br, path), dst)
        print("repo hook file:", path)
    elif st.strip():
        print("repo modified file (merge by hand):", ln)
print("copied %d files" % len(copied))
