#!/usr/bin/env python3
"""mutsweep.py <dir with list.json and NN-Cxx.diff files> [parallel] : runs the quick check of each mutant's property against the
mutated tree (bin/try_seed.sh: scratch worktree + scratch copy of /verif) and prints one line per mutant.
Results go to <dir>/results.json. Mutants are unconfirmed (no demonstration): a miss has to be looked at by hand."""
import json, os, subprocess, sys
from concurrent.futures import ThreadPoolExecutor
d = sys.argv[1]
par = int(sys.argv[2]) if len(sys.argv) > 2 else 5
lst = json.load(open(os.path.join(d, "list.json")))
only = set(sys.argv[3].split(",")) if len(sys.argv) > 3 else None

def run(m):
    f = os.path.join(d, m["file"])
    env = dict(os.environ, TRY_LINES="6", TRY_TIMEOUT="1500")
    p = subprocess.run(["/verif/bin/try_seed.sh", f, m["property"], "quick", os.environ.get("MUT_SEED", "1")], capture_output=True, text=True, env=env)
    out = p.stdout + p.stderr
    rc = p.returncode
    conj = [l.strip()[:220] for l in out.splitlines() if l.strip().startswith("what:")]
    verdict = {0: "MISSED", 1: "caught", 2: "no-verdict"}.get(rc, "rc=%d" % rc)
    if rc == 2 and "harness build failed" in out:
        verdict = "build-failed"
    if "patch does not apply" in out:
        verdict = "no-apply"
    return dict(m, verdict=verdict, detail=conj[:2], tail=out[-600:] if rc not in (0, 1) else "")

todo = [m for m in lst if not only or m["file"] in only]
with ThreadPoolExecutor(par) as ex:
    res = list(ex.map(run, todo))
json.dump(res, open(os.path.join(d, "results.json"), "w"), indent=1)
for r in res:
    print("%-16s %-4s %-12s %s" % (r["file"], r["property"], r["verdict"], (r["detail"][0] if r["detail"] else r["what"])[:150]))
print("caught %d / %d" % (sum(r["verdict"] == "caught" for r in res), len(res)))
