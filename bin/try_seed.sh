#!/bin/bash
# try_seed.sh <seed-id | path/to/patch.diff> <prop> [tier] [seed]
# Runs bin/vcheck <prop> against a scratch worktree of /repo with the seeded patch applied, from a scratch copy of
# /verif - so /repo, /verif/evidence, /verif/replays and harness/go.mod stay untouched and several seeds can be
# tried in parallel.  Prints the check's verdict lines; removes both scratch directories afterwards.
set -u
id=$1; prop=$2; tier=${3:-quick}; seed=${4:-1}
patch=$id; [ -f "$patch" ] || patch=/verif/seeded/$id/patch.diff
[ -f "$patch" ] || { echo "no patch for $id"; exit 2; }
tag=$(basename "$id" .diff)-$prop-$$
wt=/tmp/ts-$tag-repo; vc=/tmp/ts-$tag-verif
git -C /repo worktree add --detach $wt HEAD >/dev/null 2>&1 || { echo "worktree failed"; exit 2; }
git -C $wt apply "$patch" || { echo "patch does not apply"; git -C /repo worktree remove --force $wt; exit 2; }
rsync -a --exclude .git --exclude .work --exclude evidence /verif/ $vc/
mkdir -p $vc/evidence_seed
( cd $vc && VERIF_REPO=$wt VERIF_EVIDENCE_DIR=$vc/evidence_seed VERIF_SKIP_DESIGN=${VERIF_SKIP_DESIGN:-1} VERIF_SEED=$seed \
    timeout ${TRY_TIMEOUT:-3000} bin/vcheck $prop --tier $tier > $vc/out.txt 2>&1 ); rc=$?
echo "== try_seed $id $prop tier=$tier seed=$seed rc=$rc"
grep -E "^(VIOLATION|KNOWN-FINDING|NOTE|OK|NO-VERDICT|  what)" $vc/out.txt | cut -c1-400 | head -${TRY_LINES:-12}
[ $rc -ne 0 ] && [ $rc -ne 1 ] && tail -15 $vc/out.txt | cut -c1-300
git -C /repo worktree remove --force $wt; rm -rf $vc
exit $rc
