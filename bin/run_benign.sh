#!/bin/bash
# run_benign.sh <dir with patch_*.diff> "<props>" : applies each benign (property-preserving) patch to /repo, runs the quick
# checks of the given properties, reverts. Expected: every check exits 0. Evidence goes to a scratch directory.
dir=$1; props=$2
export VERIF_EVIDENCE_DIR=/tmp/evid_seed VERIF_SKIP_DESIGN=1
mkdir -p $VERIF_EVIDENCE_DIR
cd /verif
for p in $dir/patch_*.diff; do
  git -C /repo apply $p || { echo "== $p does not apply"; continue; }
  for c in $props; do
    out=$(timeout 1500 bin/vcheck $c 2>&1); rc=$?
    echo "== $(basename $p) $c rc=$rc $(echo "$out" | grep -E '^(VIOLATION|NO-VERDICT|  what)' | head -4 | cut -c1-400)"
  done
  git -C /repo checkout -- .
done
