#!/usr/bin/env python3
"""sweep_prompt.py <C01,C02,...> <worktree> <outdir> [n] : prints the brief for a fresh sub-agent that writes a sweep of small
unconfirmed mutants (no demonstrations) for the named properties. The agent sees only the property texts and its scratch worktree."""
import json, sys
ids, wt, out = sys.argv[1].split(","), sys.argv[2], sys.argv[3]
n = int(sys.argv[4]) if len(sys.argv) > 4 else 30
props = [json.loads(l) for l in open('/verif/properties.jsonl')]
props = [p for p in props if p['id'] in ids]
txt = "\n\n".join(f"PROPERTY {p['id']} - {p['title']}\nStatement: {p['statement']}\nHolds for: {p['quantifier']['text']}\n"
                  f"Code it is anchored in: {', '.join(p['anchors']['files'])}" for p in props)
print(f"""You are helping to evaluate a verification effort for the Go project zen-eth/shisui (an Ethereum Portal Network client).
Write about {n} SMALL, realistic code changes ("mutants"), spread over the properties below, each of which BREAKS one of the
properties as STATED while the project still compiles, `go vet` of the touched package is clean and the touched package's EXISTING
tests still pass.

This sweep is about HARD mutants: every one must need something specific to manifest - state left behind by EARLIER operations
(a second request of the same kind, an entry that was moved / replaced / re-added, a counter that went up and down, a cache that
was filled before), a particular interleaving of two goroutines or requests, a failure / error return at one particular point, a
boundary value or rare variant (an era, a fork, a version, a length exactly at a limit, an empty list, a nil field), or two edits
at different sites that each look harmless. Do NOT write mutants that any ordinary request would expose (inverted conditions on
the main path, removed main checks): those are already covered.

Your scratch git worktree of the project is: {wt}   (work only there; do not touch /repo or /verif; do not read /verif)
Go environment for every command: `export GOFLAGS=-mod=mod GOPROXY=off` and leave GOTOOLCHAIN / GOSUMDB unset. There is no network.
Always put `timeout` on long commands. Never use `git stash`; switch with `git apply` / `git apply -R` / `git checkout -- .`.
In package portalwire the tests TestPortalWireProtocol and TestTraceContentLookup may be flaky on the unchanged tree (networking),
and parallel runs of that package's tests collide on fixed UDP ports: run them one at a time.

{txt}

For each mutant: read the code, make the edit in the worktree, check `go build ./...`, `go vet <pkg>` and
`timeout 900 go test -count=1 <touched pkg>`; if they pass save `git diff` as {out}/NN-Cxx.diff (NN = 01, 02, ...; Cxx = the
property it breaks) and restore the tree (`git checkout -- .`). Drop mutants that fail a test. Production code only, 1-10 changed
lines each, no build tags, no edits of *_test.go, plausible as a developer's commit (refactor, fast path, simplification,
reordered steps, forgotten case on an error path).
Write {out}/list.json: a JSON list of {{"file": "NN-Cxx.diff", "property": "Cxx", "what": "...the change...",
"needs": "...exactly what has to happen for the property to be observably broken...", "tests_pass": true}}.
Leave the worktree clean at the end. Final answer: the number of mutants per property and anything notable.""")
