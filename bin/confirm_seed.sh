#!/bin/bash
# confirm_seed.sh <worktree> <seed-id> <demo dest dir (rel)> <go test -run regex> "<pkgs for existing tests>" [tags]
# Confirms a seeded change in its scratch worktree: demo passes clean, fails with the patch, and the
# existing tests of the affected packages still pass with the patch. Copies the seed to /verif/seeded/<id>/.
set -u
wt=$1; id=$2; dest=$3; rx=$4; pkgs=$5; tags=${6:-}
export GOFLAGS=-mod=mod GOPROXY=off
out=/verif/seeded/$id; mkdir -p $out
log=$out/confirm.log; : > $log
cd $wt || exit 2
git checkout -q -- . ; git status --short | grep -v '^?? seed/' >> $log
demos=$(ls seed/*_test.go 2>/dev/null)
i=0; copied=""
for d in $demos; do i=$((i+1)); cp $d $dest/zz_seed_demo_${i}_test.go; copied="$copied $dest/zz_seed_demo_${i}_test.go"; done
tagarg=""; [ -n "$tags" ] && tagarg="-tags $tags"
echo "## clean tree, demo:" >> $log
timeout 1500 go test $tagarg -count=1 -run "$rx" ./$dest/ >> $log 2>&1; clean_rc=$?
git apply seed/patch.diff || { echo "patch does not apply" >> $log; exit 2; }
echo "## patched tree, demo:" >> $log
timeout 1500 go test $tagarg -count=1 -run "$rx" ./$dest/ >> $log 2>&1; patched_rc=$?
rm -f $copied
echo "## patched tree, build + vet + existing tests:" >> $log
go build ./... >> $log 2>&1; build_rc=$?
go vet $pkgs >> $log 2>&1; vet_rc=$?
timeout 2400 go test -count=1 $pkgs 2>&1 | grep -v "^ok\|no test files" >> $log; 
timeout 2400 go test -count=1 $pkgs > /tmp/confirm_$id.txt 2>&1
fails=$(grep -E "^--- FAIL" /tmp/confirm_$id.txt | grep -v -E "TestPortalWireProtocol |TestTraceContentLookup " | wc -l)
grep -E "^--- FAIL|^FAIL|^ok" /tmp/confirm_$id.txt >> $log
git apply -R seed/patch.diff; git checkout -q -- .
cp seed/patch.diff $out/patch.diff; cp seed/*_test.go seed/HOWTO.txt $out/ 2>/dev/null; cp seed/meta.json $out/meta.agent.json
echo "RESULT id=$id clean_demo_rc=$clean_rc patched_demo_rc=$patched_rc build_rc=$build_rc vet_rc=$vet_rc existing_test_failures=$fails" | tee -a $log
