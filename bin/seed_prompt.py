#!/usr/bin/env python3
"""seed_prompt.py <Cxx> <worktree> [flavour] : prints the brief given to a fresh sub-agent that writes a seeded change.
The agent sees only the property text (title, statement, quantifier, anchor file names) and its scratch worktree."""
import json, sys
pid, wt = sys.argv[1], sys.argv[2]
flav = sys.argv[3] if len(sys.argv) > 3 else ""
p = [json.loads(l) for l in open('/verif/properties.jsonl') if json.loads(l)['id'] == pid][0]
FLAV = {
    "interleaving": "Prefer a change that needs a particular interleaving of goroutines / requests (or a particular order of two operations) to manifest.",
    "fault": "Prefer a change that needs a fault, failure, crash or error return at one particular point to manifest.",
    "sequence": "Prefer a change that needs a multi-step sequence of operations (state built up by earlier calls) to manifest.",
    "input": "Prefer a change that needs an unusual but legal input (a boundary length, a rare field combination, a rarely used variant / version / era) to manifest.",
    "twosite": "Prefer a change made of two cooperating edits at different sites that each look harmless alone.",
    "": "",
}
print(f"""You are helping to evaluate a verification effort for the Go project zen-eth/shisui (an Ethereum Portal Network client).
Your job is to write ONE realistic code change ("seeded defect") to the project that BREAKS the semantic property below while
the project still compiles, `go vet` is clean for the touched packages, and the project's EXISTING tests still pass.

Your scratch git worktree of the project is: {wt}   (work only there; do not touch /repo or /verif; do not read /verif)
Go environment for every command: `export GOFLAGS=-mod=mod GOPROXY=off` and leave GOTOOLCHAIN / GOSUMDB unset. There is no network.
Always put `timeout` on long commands (e.g. `timeout 1200 go test ...`). Building the first time takes about a minute.
Note: in package portalwire the tests TestPortalWireProtocol and TestTraceContentLookup may fail or be flaky on the UNCHANGED tree too
(networking); every other existing test must keep passing with your change.

PROPERTY {p['id']} - {p['title']}
Statement: {p['statement']}
Holds for: {p['quantifier']['text']}
Code it is anchored in: {', '.join(p['anchors']['files'])}

Requirements for the change
* It must look like something a developer could plausibly commit (a refactor, an optimisation, a "simplification", a fast path,
  a reordering, a changed boundary, an error path that forgets something) - not sabotage, no dead giveaways in names or comments.
* It must violate the property as STATED (not merely change behaviour the statement does not talk about), on the real code.
* It must need something specific to manifest - a particular interleaving, a crash or fault at a particular point, a multi-step
  sequence of operations, an unusual input, or two cooperating sites that each look fine alone - NOT something ordinary use or the
  existing tests would expose at once. {FLAV.get(flav, flav)}
* Read the code first and pick a mechanism that really carries the property; vary away from the most obvious line.
* Never use `git stash` (the stash is shared between worktrees): switch between clean and patched with `git apply` / `git apply -R`.
* Keep it small (typically 1-15 changed lines), production code only (no changes to existing *_test.go files, no build tags).

Deliverables, all inside {wt}/seed/ (create the directory; leave the rest of the worktree CLEAN, i.e. `git checkout -- .` at the end
so that the only difference is the untracked seed/ directory):
* seed/patch.diff   - `git diff` of your change against the worktree HEAD (must apply with `git apply seed/patch.diff` from the root).
* seed/demo_test.go - a Go test file (a demonstration) that PASSES on the unchanged tree and FAILS with your change. It will be copied into
  the package directory you name in meta.json as zz_seed_demo_1_test.go, so give it the right `package` clause, make it self-contained
  (it may use unexported identifiers of that package and testdata of the repo via relative paths), use unique Test names starting with
  `TestSeedDemo`, and make it deterministic (no reliance on timing luck; if an interleaving is needed force it or loop until it occurs
  with a bounded number of attempts). It should run in under 2 minutes.
* seed/HOWTO.txt    - what the change is, why it breaks the property, what exactly is needed for it to manifest, the commands you ran.
* seed/meta.json    - {{"property": "{p['id']}", "summary": "...", "needs": "...", "files": ["..."], "demo_pkg_dir": "relative/package/dir",
  "demo_run_regex": "TestSeedDemo...", "existing_test_pkgs": "./pkg1/... ./pkg2/..."}}

Before you finish, verify yourself: (1) on the clean tree the demo passes; (2) with the patch the demo fails; (3) with the patch
`go build ./...`, `go vet <touched pkgs>` and `go test -count=1 <touched pkgs and packages that import them>` pass (apart from the two
flaky portalwire tests named above). Then restore the worktree (`git checkout -- .`, remove the copied demo) leaving only seed/.
Final answer: a short report (what you changed, what it needs to manifest, the results of the three verifications).""")
