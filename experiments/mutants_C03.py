import subprocess, sys, os, json
REPO='/tmp/b-C03/repo'; VERIF='/tmp/b-C03/verif'
MUTS = [
 ("M01-exec-gindex-6445", "validation/header_validator.go", "var gIndex uint64 = 6444", "var gIndex uint64 = 6445"),
 ("M02-era-merge-le", "validation/header_validator.go", "if blockNumber < history.MergeBlockNumber {", "if blockNumber <= history.MergeBlockNumber {"),
 ("M03-capella-skip-root-compare", "validation/header_validator.go", """	if !merkle.VerifyMerkleBranch(tree.Root(proof.BeaconBlockRoot), proof.GetBeaconBlockProof(), 13, genIndex, historicSummary.BlockSummaryRoot) {
		return ErrMerkleValidation
	}
	return nil
}

func (h HeaderValidator) validatePostDenebHeader""", """	_ = merkle.VerifyMerkleBranch(tree.Root(proof.BeaconBlockRoot), proof.GetBeaconBlockProof(), 13, genIndex, historicSummary.BlockSummaryRoot)
	return nil
}

func (h HeaderValidator) validatePostDenebHeader"""),
 ("M04-pre-index-no-shift", "validation/header_validator.go", "index := epochSize*2*2 + recordIndex*2", "index := epochSize*2*2 + recordIndex"),
 ("M05-roots-depth-13", "validation/header_validator.go", "proof.GetBeaconBlockProof()[:], 14, genIndex, historicalRoot)", "proof.GetBeaconBlockProof()[:], 13, genIndex, historicalRoot)"),
 ("M06-capella-start-plus-one-epoch", "validation/historical_summaries_provider.go", "capellaForkEpoch uint64 = 194_048", "capellaForkEpoch uint64 = 194_049"),
 ("M07-deneb-skip-stage1", "validation/header_validator.go", """	valid := h.verifyPostDenebExecutionBlockProof(headerHash, proof.GetExecutionBlockProof(), tree.Root(proof.BeaconBlockRoot))
	if !valid {""", """	valid := h.verifyPostDenebExecutionBlockProof(headerHash, proof.GetExecutionBlockProof(), tree.Root(proof.BeaconBlockRoot))
	if !valid && len(headerHash) == 0 {"""),
 ("M08-roots-blockrootindex-half", "validation/header_validator.go", """	blockRootIndex := proof.Slot % epochSize
	genIndex := 2*epochSize + blockRootIndex""", """	blockRootIndex := proof.Slot % (epochSize / 2)
	genIndex := 2*epochSize + blockRootIndex"""),
 ("M09-pre-ignore-verify-result", "validation/header_validator.go", """	if !valid {
		return ErrMerkleValidation
	}
	return nil
}

func (h HeaderValidator) validateMergeToCapellaHeader""", """	_ = valid
	return nil
}

func (h HeaderValidator) validateMergeToCapellaHeader"""),
 ("M10-summary-index-le", "validation/historical_summaries_provider.go", "if historicalSummaryIndex < uint64(len(h.cache)) {", "if historicalSummaryIndex <= uint64(len(h.cache)) && len(h.cache) > 0 {"),
 ("M11-buildproof-index", "history/accumulator.go", "proofIndex := epochSize*2 + index*2", "proofIndex := epochSize*2 + index*2 + 1"),
 ("M12-accumulator-update-mixin-length", "history/accumulator.go", """		a.historicalEpochs = append(a.historicalEpochs, MixInLength(root, epochSize))
		a.currentEpoch = newEpoch()""", """		a.historicalEpochs = append(a.historicalEpochs, MixInLength(root, epochSize-1))
		a.currentEpoch = newEpoch()"""),
 ("M13-roots-index-plus-one", "validation/header_validator.go", "historicalRootIndex := proof.Slot / epochSize", "historicalRootIndex := (proof.Slot + 1) / epochSize"),
 ("M14-summary-error-accepted", "validation/header_validator.go", """	historicSummary, err := h.historicalSummariesProvider.GetHistoricalSummary(proof.Slot)
	if err != nil {
		return err
	}

	blockRootIndex := proof.Slot % epochSize
	genIndex := epochSize + blockRootIndex

	if !merkle.VerifyMerkleBranch(tree.Root(proof.BeaconBlockRoot), proof.GetBeaconBlockProof(), 13, genIndex, historicSummary.BlockSummaryRoot) {
		return ErrMerkleValidation
	}
	return nil
}

func (h HeaderValidator) verifyBellatrixToDenebExecutionBlockProof""", """	historicSummary, err := h.historicalSummariesProvider.GetHistoricalSummary(proof.Slot)
	if err != nil {
		return nil
	}

	blockRootIndex := proof.Slot % epochSize
	genIndex := epochSize + blockRootIndex

	if !merkle.VerifyMerkleBranch(tree.Root(proof.BeaconBlockRoot), proof.GetBeaconBlockProof(), 13, genIndex, historicSummary.BlockSummaryRoot) {
		return ErrMerkleValidation
	}
	return nil
}

func (h HeaderValidator) verifyBellatrixToDenebExecutionBlockProof"""),
 ("M15-era-cancun-le", "validation/header_validator.go", "} else if blockNumber < history.CancunNumber {", "} else if blockNumber <= history.CancunNumber {"),
 ("M16-accumulator-finish-mixin", "history/accumulator.go", """	a.historicalEpochs = append(a.historicalEpochs, MixInLength(root, epochSize))
	return &MasterAccumulator{""", """	a.historicalEpochs = append(a.historicalEpochs, MixInLength(root, uint64(len(a.currentEpoch.records)-1)))
	return &MasterAccumulator{"""),
 ("M17-shanghai-constant", "types/history/constant.go", "ShanghaiBlockNumber uint64 = 17_034_870", "ShanghaiBlockNumber uint64 = 17_034_871"),
 ("M18-bell-exec-depth-minus-one", "validation/header_validator.go", """	var gIndex uint64 = 3228
	return merkle.VerifyMerkleBranch(tree.Root(headerHash), elProof, uint64(len(elProof)), gIndex, root)""", """	var gIndex uint64 = 3228
	return merkle.VerifyMerkleBranch(tree.Root(headerHash), elProof[1:], uint64(len(elProof))-1, gIndex>>1, root)"""),
 ("M26-capella-unmarshal-error-ignored", "validation/header_validator.go", """		blockProof := new(history.BlockProofHistoricalSummariesCapella)
		err := blockProof.UnmarshalSSZ(proof)
		if err != nil {
			return err
		}""", """		blockProof := new(history.BlockProofHistoricalSummariesCapella)
		err := blockProof.UnmarshalSSZ(proof)
		if err != nil {
			return nil
		}"""),
 ("M30-last-summary-unreachable", "validation/historical_summaries_provider.go", "if historicalSummaryIndex < uint64(len(h.cache)) {", "if historicalSummaryIndex+1 < uint64(len(h.cache)) {"),
 ("M31-pre-epoch-index-of-next-block", "validation/header_validator.go", "epochIndex := history.GetEpochIndexByHeader(*header)", "epochIndex := history.GetEpochIndex(header.Number.Uint64() + 1)"),
 ("M32-roots-top-sibling-ignored", "validation/header_validator.go", "if !merkle.VerifyMerkleBranch(tree.Root(proof.BeaconBlockRoot), proof.GetBeaconBlockProof()[:], 14, genIndex, historicalRoot) {", "if !merkle.VerifyMerkleBranch(tree.Root(proof.BeaconBlockRoot), proof.GetBeaconBlockProof()[:], 14, genIndex, historicalRoot) && proof.Slot%epochSize != epochSize-1 {"),
 ("S1-verified-root-cache", "validation/header_validator.go", """	historicSummary, err := h.historicalSummariesProvider.GetHistoricalSummary(proof.Slot)
	if err != nil {
		return err
	}

	blockRootIndex := proof.Slot % epochSize
	genIndex := epochSize + blockRootIndex

	if !merkle.VerifyMerkleBranch(tree.Root(proof.BeaconBlockRoot), proof.GetBeaconBlockProof(), 13, genIndex, historicSummary.BlockSummaryRoot) {
		return ErrMerkleValidation
	}
	return nil
}

func (h HeaderValidator) validatePostDenebHeader""", """	if _, ok := verifiedBlockRoots.Load(tree.Root(proof.BeaconBlockRoot)); ok {
		return nil
	}
	historicSummary, err := h.historicalSummariesProvider.GetHistoricalSummary(proof.Slot)
	if err != nil {
		return err
	}

	blockRootIndex := proof.Slot % epochSize
	genIndex := epochSize + blockRootIndex

	if !merkle.VerifyMerkleBranch(tree.Root(proof.BeaconBlockRoot), proof.GetBeaconBlockProof(), 13, genIndex, historicSummary.BlockSummaryRoot) {
		return ErrMerkleValidation
	}
	verifiedBlockRoots.Store(tree.Root(proof.BeaconBlockRoot), true)
	return nil
}

var verifiedBlockRoots syncMap

type syncMap struct{ m map[tree.Root]bool }

func (s *syncMap) Load(k tree.Root) (bool, bool) { v, ok := s.m[k]; return v, ok }
func (s *syncMap) Store(k tree.Root, v bool) {
	if s.m == nil {
		s.m = map[tree.Root]bool{}
	}
	s.m[k] = v
}

func (h HeaderValidator) validatePostDenebHeader"""),
 ("S2-summary-memo-by-epoch-var", "validation/historical_summaries_provider.go", """	epoch := slot % epochSize
	historicalSummaryIndex := (slot - capellaForkEpoch*slotsPerEpoch) / epochSize
	if historicalSummaryIndex < uint64(len(h.cache)) {
		return h.cache[historicalSummaryIndex], nil
	}""", """	epoch := slot % epochSize
	if s, ok := lastSummary[epoch]; ok {
		return s, nil
	}
	historicalSummaryIndex := (slot - capellaForkEpoch*slotsPerEpoch) / epochSize
	if historicalSummaryIndex < uint64(len(h.cache)) {
		lastSummary[epoch] = h.cache[historicalSummaryIndex]
		return h.cache[historicalSummaryIndex], nil
	}"""),
]
sel = sys.argv[1:]
env = dict(os.environ, VERIF_REPO=REPO, GOFLAGS='-mod=mod', GOPROXY='off', VERIF_SKIP_DESIGN='1')
res = []
for name, f, a, b in MUTS:
    if sel and not any(name.startswith(s) for s in sel): continue
    p = os.path.join(REPO, f); src = open(p).read()
    if src.count(a) != 1:
        print(name, "PATTERN COUNT", src.count(a)); continue
    open(p, 'w').write(src.replace(a, b) + ("\nvar lastSummary = map[uint64]capella.HistoricalSummary{}\n" if name.startswith("S2") else ""))
    try:
        r = subprocess.run(['timeout', '900', 'bin/vcheck', 'C03'], cwd=VERIF, env=env, stdout=subprocess.PIPE, stderr=subprocess.STDOUT)
        out = r.stdout.decode()
    finally:
        subprocess.run(['git', 'checkout', '--', f], cwd=REPO)
    lines = [l for l in out.splitlines() if l.startswith(('VIOLATION', '  what', 'OK ', 'NO-VERDICT', 'NOTE'))]
    print("=====", name, "rc=%d" % r.returncode)
    for l in lines[:8]: print("   ", l[:330])
    res.append((name, r.returncode))
print(res)
