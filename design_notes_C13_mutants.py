import subprocess, sys, os, json
REPO='/tmp/b-C13/repo'
MUTS = {
 "M1-no-root-check": [("state/validation.go", '''	firstNode := []EncodedTrieNode(*proof)[0]
	err := checkNodeHash(&firstNode, rootHash[:])
	if err != nil {
		return nil, nil, err
	}
''', '''	firstNode := []EncodedTrieNode(*proof)[0]
''')],
 "M2-no-path-consumed": [("state/validation.go", '''	if len(p) != 0 {
		return errors.New("path is too long")
	}
''', '''	_ = p
''')],
 "M3a-no-last-hash-validator-only": [("state/validation.go", '''	err = checkNodeHash(&lastNode, nodeHash[:])
	if err != nil {
		return err
	}
	return nil
}''', '''	_ = lastNode
	return nil
}''')],
 "M3b-no-last-hash-validator-and-put": [("state/validation.go", '''	err = checkNodeHash(&lastNode, nodeHash[:])
	if err != nil {
		return err
	}
	return nil
}''', '''	_ = lastNode
	return nil
}'''), ("state/storage.go", '''	if !bytes.Equal(lastNodeHash, accountKey.NodeHash[:]) {''', '''	if false && !bytes.Equal(lastNodeHash, accountKey.NodeHash[:]) {'''),
      ("state/storage.go", '''	if !bytes.Equal(lastNodeHash, contractStorageKey.NodeHash[:]) {''', '''	if false && !bytes.Equal(lastNodeHash, contractStorageKey.NodeHash[:]) {''')],
 "M4-store-first-node": [("state/storage.go", '''	lastTrieNode := &TrieNode{
		Node: lastProof,
	}
	var contentValueBuf bytes.Buffer
	err = lastTrieNode.Serialize(codec.NewEncodingWriter(&contentValueBuf))
	if err != nil {
		return err
	}
	err = s.store.Put(contentId, contentId, contentValueBuf.Bytes())
	if err != nil {
		s.log.Error("failed to save data after validate", "type", contentKey[0], "key", contentKey[1:], "value", content)
	} else if metrics.Enabled() && portalStorageMetrics != nil {
		portalStorageMetrics.EntriesCount.Inc(1)
		portalStorageMetrics.ContentStorageUsage.Inc(int64(len(content)))
	}
	return nil
}

func (s *Storage) putContractStorageTrieNode''', '''	lastTrieNode := &TrieNode{
		Node: accountData.Proof[0],
	}
	var contentValueBuf bytes.Buffer
	err = lastTrieNode.Serialize(codec.NewEncodingWriter(&contentValueBuf))
	if err != nil {
		return err
	}
	err = s.store.Put(contentId, contentId, contentValueBuf.Bytes())
	if err != nil {
		s.log.Error("failed to save data after validate", "type", contentKey[0], "key", contentKey[1:], "value", content)
	} else if metrics.Enabled() && portalStorageMetrics != nil {
		portalStorageMetrics.EntriesCount.Inc(1)
		portalStorageMetrics.ContentStorageUsage.Inc(int64(len(content)))
	}
	return nil
}

func (s *Storage) putContractStorageTrieNode''')],
 "M5-no-link-check": [("state/validation.go", '''		err = checkNodeHash(&nextNode, hashNode)

		if err != nil {
			return nil, nil, err
		}
''', '''		_ = hashNode
''')],
 "M6-no-account-codehash-check": [("state/validation.go", '''	if !bytes.Equal(accountState.CodeHash, contractByteCodeKey.CodeHash[:]) {''', '''	if false && !bytes.Equal(accountState.CodeHash, contractByteCodeKey.CodeHash[:]) {''')],
 "M7-no-put-codehash-check": [("state/storage.go", '''	if !bytes.Equal(codeHash, contractByteCodeKey.CodeHash[:]) {''', '''	if false && !bytes.Equal(codeHash, contractByteCodeKey.CodeHash[:]) {''')],
 "M8-branch-empty-path-unchecked": [("state/trie/utils.go", '''		if len(path) == 0 {
			return nil, nil, fmt.Errorf("path should not be empty in fullnode: %v", node)
		}
''', '''		_ = fmt.Sprint
''')],
 "M9-extension-last-nibble-unchecked": [("state/trie/utils.go", '''			for index, key := range v.Key {
				if path[index] != key {''', '''			for index, key := range v.Key[:len(v.Key)-1] {
				if path[index] != key {''')],
 "M10-leaf-key-unchecked": [("state/trie/utils.go", '''			if !bytes.Equal(prePath, path) {
				return nil, nil, ErrDifferentLeafPrefix
			}
''', '''			_ = bytes.Equal
''')],
 "M11-storage-proof-against-state-root": [("state/validation.go", '''	err = validateNodeTrieProof(common.Bytes32(accountState.Root), contractStorageKey.NodeHash, &contractStorageKey.Path, &contractProof.StorageProof)''',
   '''	_ = accountState
	err = validateNodeTrieProof(common.Bytes32(stateRoot.Root), contractStorageKey.NodeHash, &contractStorageKey.Path, &contractProof.StorageProof)''')],
 "M12-storage-stores-account-proof-node": [("state/storage.go", '''	lastProof := contractProof.StorageProof[length-1]

	lastNodeHash := crypto.Keccak256(lastProof)
	if !bytes.Equal(lastNodeHash, contractStorageKey.NodeHash[:]) {
		return errors.New("hash of the contract storage node doesn't match key's node hash")
	}

	lastTrieNode := &TrieNode{
		Node: lastProof,
	}''', '''	lastProof := contractProof.StorageProof[length-1]

	lastNodeHash := crypto.Keccak256(lastProof)
	if !bytes.Equal(lastNodeHash, contractStorageKey.NodeHash[:]) {
		return errors.New("hash of the contract storage node doesn't match key's node hash")
	}

	lastTrieNode := &TrieNode{
		Node: contractProof.AccountProof[len(contractProof.AccountProof)-1],
	}''')],
 "M15-bytecode-stores-whole-offer": [("state/storage.go", """	err = container.Serialize(codec.NewEncodingWriter(&contentValueBuf))
	if err != nil {
		return err
	}
	err = s.store.Put(contentId, contentId, contentValueBuf.Bytes())""", """	err = container.Serialize(codec.NewEncodingWriter(&contentValueBuf))
	if err != nil {
		return err
	}
	err = s.store.Put(contentId, contentId, content)""")],
 "M16-store-before-hash-check": [("state/storage.go", """	lastNodeHash := crypto.Keccak256(lastProof)
	if !bytes.Equal(lastNodeHash, accountKey.NodeHash[:]) {
		return errors.New("hash of the trie node doesn't match key's node_hash")
	}
	lastTrieNode := &TrieNode{
		Node: lastProof,
	}
	var contentValueBuf bytes.Buffer
	err = lastTrieNode.Serialize(codec.NewEncodingWriter(&contentValueBuf))
	if err != nil {
		return err
	}
	err = s.store.Put(contentId, contentId, contentValueBuf.Bytes())""", """	lastTrieNode := &TrieNode{
		Node: lastProof,
	}
	var contentValueBuf bytes.Buffer
	err = lastTrieNode.Serialize(codec.NewEncodingWriter(&contentValueBuf))
	if err != nil {
		return err
	}
	err = s.store.Put(contentId, contentId, contentValueBuf.Bytes())
	lastNodeHash := crypto.Keccak256(lastProof)
	if !bytes.Equal(lastNodeHash, accountKey.NodeHash[:]) {
		return errors.New("hash of the trie node doesn't match key's node_hash")
	}""")],
 "M13-embedded-child-not-descended": [("state/trie/utils.go", '''	case hashNode:
		return v, path, nil
	}''', '''	case hashNode:
		return v, path, nil
	case valueNode:
		return v, path, nil
	}''')],
 "M14-account-proof-root-from-key": [("state/validation.go", '''	accountState, err := validateAccountState(common.Bytes32(stateRoot.Root), contractByteCodeKey.AddressHash, &contractBytecodeWithProof.AccountProof)''',
   '''	_ = stateRoot
	var firstHash common.Bytes32
	if len(contractBytecodeWithProof.AccountProof) > 0 {
		firstHash = contractBytecodeWithProof.AccountProof[0].NodeHash()
	}
	accountState, err := validateAccountState(firstHash, contractByteCodeKey.AddressHash, &contractBytecodeWithProof.AccountProof)''')],
}
names = sys.argv[1:] or list(MUTS)
env = dict(os.environ, VERIF_REPO=REPO, GOFLAGS='-mod=mod', GOPROXY='off', VERIF_SKIP_DESIGN='1')
for name in names:
    subprocess.run(['git','checkout','--','.'],cwd=REPO,check=True)
    ok=True
    for f,a,b in MUTS[name]:
        p=os.path.join(REPO,f); s=open(p).read()
        if s.count(a)!=1: print(name,"PATTERN COUNT",s.count(a),f); ok=False; break
        open(p,'w').write(s.replace(a,b))
    if not ok: continue
    r=subprocess.run(['go','build','./state/...'],cwd=REPO,env=env,capture_output=True,text=True)
    if r.returncode!=0: print(name,"DOES NOT COMPILE",r.stderr[-400:]); continue
    r=subprocess.run(['timeout','900','bin/vcheck','C13','--tier','quick'],cwd='/tmp/b-C13/verif',env=env,capture_output=True,text=True)
    out=(r.stdout+r.stderr).splitlines()
    print("=====",name,"rc=",r.returncode)
    for ln in out:
        if ln.startswith(('VIOLATION','  what','NO-VERDICT','OK ','NOTE')): print("   ",ln[:700])
subprocess.run(['git','checkout','--','.'],cwd=REPO,check=True)
